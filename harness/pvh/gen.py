"""Generators shared by the suites: variable declarations, candidate values, tasks.

Every random choice derives from the `random.Random` handed in (itself derived from VERIF_SEED)."""
from __future__ import annotations
import math
import numpy as np
from .canon import bits

SCALES = [1e-300, 1e-9, 1e-3, 0.1, 1.0, 3.0, 10.0, 1e3, 1e9, 1e300]


def rand_bounds(rng):
    """a (lb, ub) pair with lb < ub at a random scale; asymmetric, one-sided, tiny, huge, zero-touching."""
    s = rng.choice(SCALES)
    kind = rng.randrange(6)
    if kind == 0:
        lb, ub = -s, s
    elif kind == 1:
        lb, ub = 0.0, s
    elif kind == 2:
        lb, ub = -s, 0.0
    elif kind == 3:
        a = rng.uniform(-s, s)
        lb, ub = a, a + abs(a) * 1e-12 + s * rng.random() + 5e-324
    elif kind == 4:
        lb = rng.uniform(-s, s)
        ub = np.nextafter(lb, math.inf)        # the narrowest possible interval
    else:
        lb = round(rng.uniform(-s, s), 2)
        ub = lb + rng.choice([0.1, 1, 2.5, 100])
    lb, ub = float(lb), float(ub)
    if not (lb < ub) or math.isinf(lb) or math.isinf(ub):
        lb, ub = -1.0, 1.0
    return lb, ub


def values_around(rng, lb, ub):
    """candidate values for a continuous variable: in range, out of range, boundaries, ±1 ulp, huge, ±inf, nan, fractional."""
    w = ub - lb
    vals = [lb, ub, np.nextafter(lb, -math.inf), np.nextafter(lb, math.inf), np.nextafter(ub, -math.inf),
            np.nextafter(ub, math.inf), lb + w / 2 if math.isfinite(w) else 0.0, lb - 1.0, ub + 1.0, 1e308, -1e308,
            math.inf, -math.inf, math.nan, 0.0, -0.0, 5e-324]
    for _ in range(4):
        vals.append(rng.uniform(lb, ub))
        vals.append(rng.uniform(lb - abs(w), ub + abs(w)) if math.isfinite(w) else rng.uniform(-1e300, 1e300))
    return [float(v) for v in vals]


def as_numpy_variants(rng, x):
    """the same numeric value presented as different Python/numpy scalar types (only when exactly representable)."""
    out = [x]
    if math.isfinite(x):
        out.append(np.float64(x))
        f32 = np.float32(x)
        if float(f32) == x:
            out.append(f32)
        if x == int(x) and abs(x) < 2 ** 53:
            out.append(int(x))
            out.append(np.int64(int(x)))
            if x in (0.0, 1.0):
                out.append(bool(int(x)))
    return out


def type_tag(v) -> str:
    return type(v).__name__


# ------------------------------------------------------------------------------------------------
# declarations: a plain-dict spec, from which both the Python variable and the model's JSON are built
# ------------------------------------------------------------------------------------------------
KINDS = ["cont", "contMulti", "disc", "discMulti", "perm", "multiObj", "binary"]
ITEM_POOLS = [list("abcdefg"), [3, 1, 4, 15, 9, 2, 6], ["b", 2, "a", 1.5, "c", 0, "d"]]


def rand_spec(rng, kind, max_size=3, nice=False):
    """a random valid declaration of the given kind. `nice` keeps bounds at moderate scale (for optimizer runs)."""
    bnd = (lambda: nice_bounds(rng)) if nice else (lambda: rand_bounds(rng))
    if kind == "cont":
        lb, ub = bnd()
        return {"k": "cont", "lb": lb, "ub": ub}
    if kind in ("contMulti", "multiObj"):
        k = rng.randrange(1, max_size + 1)
        bs = [bnd() for _ in range(k)]
        return {"k": kind, "lbs": [b[0] for b in bs], "ubs": [b[1] for b in bs]}
    if kind == "disc":
        return {"k": "disc", "n": rng.randrange(1, 7), "pool": rng.randrange(3)}
    if kind == "discMulti":
        k = rng.randrange(1, max_size + 1)
        return {"k": "discMulti", "ns": [rng.randrange(1, 6) for _ in range(k)]}
    if kind == "perm":
        return {"k": "perm", "n": rng.randrange(1, 7), "pool": rng.randrange(3)}
    if kind == "binary":
        return {"k": "binary", "n": rng.randrange(1, max_size + 1)}
    raise ValueError(kind)


def nice_bounds(rng):
    kind = rng.randrange(5)
    s = rng.choice([0.5, 1.0, 5.0, 10.0, 100.0])
    if kind == 0:
        return -s, s
    if kind == 1:
        return 0.0, s
    if kind == 2:
        return -s, 0.0
    if kind == 3:
        a = round(rng.uniform(-s, s), 3)
        return a, a + round(rng.uniform(0.01, s), 3)
    return s, 3 * s


def spec_json(spec):
    """the declaration as the model driver reads it (`Proto.getVarDecl`)."""
    k = spec["k"]
    if k == "cont":
        return {"k": "cont", "lb": bits(spec["lb"]), "ub": bits(spec["ub"])}
    if k in ("contMulti", "multiObj"):
        return {"k": k, "lbs": [bits(x) for x in spec["lbs"]], "ubs": [bits(x) for x in spec["ubs"]]}
    if k == "disc":
        return {"k": "disc", "n": spec["n"]}
    if k == "discMulti":
        return {"k": "discMulti", "ns": list(spec["ns"])}
    if k == "perm":
        return {"k": "perm", "n": spec["n"]}
    if k == "binary":
        return {"k": "binary", "n": spec["n"]}
    raise ValueError(k)


def spec_size(spec):
    k = spec["k"]
    return {"cont": 1, "disc": 1, "perm": 1}.get(k) or (len(spec["lbs"]) if k in ("contMulti", "multiObj") else
                                                         len(spec["ns"]) if k == "discMulti" else spec["n"])


def spec_choices(spec):
    """the declared choices (disc: list; discMulti: list of lists; perm: items)."""
    k = spec["k"]
    if k == "disc":
        return [f"c{j}" if spec.get("pool", 0) == 0 else (10 * (j + 1) if spec["pool"] == 1 else [0.5, "x", 3, None, (1, 2), "y"][j]) for j in range(spec["n"])]
    if k == "discMulti":
        return [[100 * (i + 1) + j for j in range(n)] for i, n in enumerate(spec["ns"])]
    if k == "perm":
        return ITEM_POOLS[spec.get("pool", 0)][:spec["n"]]
    return None


def spec_flat(spec):
    """the harness's own flattening of a declaration into scalar variables: ('cont', lb, ub) | ('disc', n) | ('perm', n)."""
    k = spec["k"]
    if k == "cont":
        return [("cont", spec["lb"], spec["ub"])]
    if k in ("contMulti", "multiObj"):
        return [("cont", lb, ub) for lb, ub in zip(spec["lbs"], spec["ubs"])]
    if k == "disc":
        return [("disc", spec["n"])]
    if k == "discMulti":
        return [("disc", n) for n in spec["ns"]]
    if k == "perm":
        return [("perm", spec["n"])]
    if k == "binary":
        return [("disc", 2)] * spec["n"]


def make_variable(spec, name):
    import pyvolutionary as pv
    k = spec["k"]
    if k == "cont":
        return pv.ContinuousVariable(name=name, lower_bound=spec["lb"], upper_bound=spec["ub"])
    if k == "contMulti":
        return pv.ContinuousMultiVariable(name=name, lower_bounds=list(spec["lbs"]), upper_bounds=list(spec["ubs"]))
    if k == "multiObj":
        return pv.MultiObjectiveVariable(name=name, lower_bounds=list(spec["lbs"]), upper_bounds=list(spec["ubs"]))
    if k == "disc":
        return pv.DiscreteVariable(name=name, choices=spec_choices(spec))
    if k == "discMulti":
        return pv.DiscreteMultiVariable(name=name, choices=spec_choices(spec))
    if k == "perm":
        return pv.PermutationVariable(name=name, items=spec_choices(spec))
    if k == "binary":
        return pv.BinaryVariable(name=name, n_vars=spec["n"])
    raise ValueError(k)


# objectives by name (picklable: process-mode workers re-import this module); in-process call logs by id
OBJECTIVE_TABLE = {"zero": lambda x: 0.0}
CALL_LOGS = {}

_GenTask = None


def gen_task_class():
    """module-level Task subclass whose objective is looked up by name in `data` (so the task pickles into worker processes);
    every call can be logged: in-process into CALL_LOGS[data['logid']], and/or appended to data['callfile'] (O_APPEND, worker-safe)"""
    global _GenTask
    if _GenTask is None:
        import pyvolutionary as pv

        class GenTask(pv.Task):
            def objective_function(self, x):
                d = self.data or {}
                log = CALL_LOGS.get(d.get("logid"))
                if log is not None:
                    log.append(list(x))
                cf = d.get("callfile")
                if cf:
                    from . import trace
                    import json as _json
                    with open(cf, "a") as fh:
                        fh.write(_json.dumps(trace._enc_pos(x)) + "\n")
                if d.get("delay"):
                    import time as _t, random as _r
                    _t.sleep(d["delay"] * (0.5 + _r.Random(hash(tuple(map(repr, x)))).random()))
                if d.get("raise_after") is not None:
                    d["raise_after"] -= 1
                    if d["raise_after"] < 0:
                        raise RuntimeError("scripted objective failure")
                if d.get("nested"):
                    # re-entrancy: this evaluation itself runs another optimizer instance to completion (meta-optimisation, a tuned inner solver):
                    # the outer run's counters, rate history and population must be its own
                    _inner_run()
                name = d.get("objective", "zero")
                if name.startswith("-"):      # the negated objective (C12: maximising f is minimising -f)
                    v = OBJECTIVE_TABLE[name[1:]](x)
                    v = [-c for c in v] if isinstance(v, list) else -v
                else:
                    v = OBJECTIVE_TABLE[name](x)
                if d.get("scribble"):
                    # a deterministic objective that uses its argument as scratch space (unit conversion in place, popping while consuming, …):
                    # the value is computed from the argument as given, the argument is overwritten afterwards
                    try:
                        for i in range(len(x)):
                            x[i] = x[i] * 3 + 1 if not isinstance(x[i], (list, tuple)) else x[i]
                    except TypeError:
                        pass
                return v

        GenTask.__module__ = __name__
        GenTask.__qualname__ = "GenTask"
        globals()["GenTask"] = GenTask
        _GenTask = GenTask
    return _GenTask


def _inner_run():
    import pyvolutionary as pv
    import numpy as _np
    st = _np.random.get_state()
    try:
        inner = pv.ParticleSwarmOptimization(pv.ParticleSwarmOptimizationConfig(population_size=3, max_cycles=3, fitness_error=None, c1=1.0, c2=1.0, w=[0.4, 0.9]))
        t = make_task([{"k": "cont", "lb": -1.0, "ub": 1.0}], "zero", seed=5)
        import contextlib, io
        with contextlib.redirect_stdout(io.StringIO()):
            inner.optimize(t)
    finally:
        _np.random.set_state(st)       # the inner run re-seeds numpy's global generator: put the outer stream back


def make_task(specs, objective="zero", data=None, names=None, **kw):
    """a Task over the given declarations (variables named v0, v1, …) with the named objective (default: constant 0)."""
    cls = gen_task_class()
    d = {"objective": objective}
    d.update(data or {})
    return cls(variables=[make_variable(s, names[i] if names else f"v{i}") for i, s in enumerate(specs)], data=d, **kw)
