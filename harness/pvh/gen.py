"""Generators shared by the suites: variable declarations, candidate values, tasks.

Every random choice derives from the `random.Random` handed in (itself derived from VERIF_SEED)."""
from __future__ import annotations
import math
import numpy as np
from .canon import bits

SCALES = [1e-300, 1e-9, 1e-3, 0.1, 1.0, 3.0, 10.0, 1e3, 1e9, 1e300]


def rand_bounds(rng):
    """a (lb, ub) pair with lb < ub at a random scale; asymmetric, one-sided, tiny, huge, zero-touching."""
    s = rng.choice(SCALES)
    kind = rng.randrange(6)
    if kind == 0:
        lb, ub = -s, s
    elif kind == 1:
        lb, ub = 0.0, s
    elif kind == 2:
        lb, ub = -s, 0.0
    elif kind == 3:
        a = rng.uniform(-s, s)
        lb, ub = a, a + abs(a) * 1e-12 + s * rng.random() + 5e-324
    elif kind == 4:
        lb = rng.uniform(-s, s)
        ub = np.nextafter(lb, math.inf)        # the narrowest possible interval
    else:
        lb = round(rng.uniform(-s, s), 2)
        ub = lb + rng.choice([0.1, 1, 2.5, 100])
    lb, ub = float(lb), float(ub)
    if not (lb < ub) or math.isinf(lb) or math.isinf(ub):
        lb, ub = -1.0, 1.0
    return lb, ub


def values_around(rng, lb, ub):
    """candidate values for a continuous variable: in range, out of range, boundaries, ±1 ulp, huge, ±inf, nan, fractional."""
    w = ub - lb
    vals = [lb, ub, np.nextafter(lb, -math.inf), np.nextafter(lb, math.inf), np.nextafter(ub, -math.inf),
            np.nextafter(ub, math.inf), lb + w / 2 if math.isfinite(w) else 0.0, lb - 1.0, ub + 1.0, 1e308, -1e308,
            math.inf, -math.inf, math.nan, 0.0, -0.0, 5e-324]
    for _ in range(4):
        vals.append(rng.uniform(lb, ub))
        vals.append(rng.uniform(lb - abs(w), ub + abs(w)) if math.isfinite(w) else rng.uniform(-1e300, 1e300))
    return [float(v) for v in vals]


def as_numpy_variants(rng, x):
    """the same numeric value presented as different Python/numpy scalar types (only when exactly representable)."""
    out = [x]
    if math.isfinite(x):
        out.append(np.float64(x))
        f32 = np.float32(x)
        if float(f32) == x:
            out.append(f32)
        if x == int(x) and abs(x) < 2 ** 53:
            out.append(int(x))
            out.append(np.int64(int(x)))
            if x in (0.0, 1.0):
                out.append(bool(int(x)))
    return out


def type_tag(v) -> str:
    return type(v).__name__
