"""S-rel: relational runs on the real optimizers — same seed twice, used instance vs fresh, max f vs min -f,
constructor-config vs set_config_parameters.  Every runner returns plain digests that are compared bit-for-bit."""
from __future__ import annotations
import json
import contextlib
import io
import random as pyrandom
import warnings

import numpy as np

from . import trace, optimizers, gen


def digest(r):
    """what C07/C08/C12/C18 compare: every position, cost, fitness and rate of every generation, or the exception"""
    if "result" in r:
        return {"evolution": r["result"]["evolution"], "rates": r["result"]["rates"], "best": r["result"]["best"]}
    if "exception" in r:
        return {"exception": [r["exception"]["type"], r["exception"]["func"]]}
    return {"setup_error": r.get("setup_error")}


def perturb(n):
    """draw from both global generators (what 'other random numbers the process drew before' means)"""
    np.random.random(n % 17 + 1)
    np.random.seed(n * 7919 + 13)
    np.random.standard_normal(n % 5 + 1)
    pyrandom.seed(n)
    pyrandom.random()


def run_c07(job):
    """run A; perturb both generators; run B in the same process (fresh instance each). The caller also runs the job in another process."""
    warnings.filterwarnings("ignore")
    a = trace.run_traced(dict(job, trace=False))
    perturb(job.get("perturb", 3))
    b = trace.run_traced(dict(job, trace=False))
    return {"job": job, "a": digest(a), "b": digest(b)}


def run_single(job):
    warnings.filterwarnings("ignore")
    perturb(job.get("perturb", 11) + 101)
    return {"job": job, "a": digest(trace.run_traced(dict(job, trace=False)))}


def run_c08(job):
    """job['history']: list of earlier calls {specs, objective, minmax, seed, raise_after?} made on ONE instance before the final call;
    the final call (the job itself) is compared with the same call on a freshly constructed instance."""
    warnings.filterwarnings("ignore")
    try:
        used = optimizers.make(job["name"], **job.get("cfg", {}))
    except Exception as e:  # noqa
        return {"job": job, "setup_error": repr(e)}
    hist_out = []
    # history entries marked `same-object` are earlier optimize() calls on the very Task OBJECT the final call uses (same seed, same everything)
    shared = trace.build_task(dict(job, trace=False)) if any(h.get("which") == "same-object" for h in job["history"]) else None
    for h in job["history"]:
        hj = dict(job, **h)
        hj["trace"] = False
        if h.get("which") == "same-object":
            hj["seed"] = job["seed"]
            hj["_task_obj"] = shared
        if h.get("raise_after") is not None:
            hj["_raise_after"] = h["raise_after"]
        r = _run_on(used, hj)
        hist_out.append("result" if "result" in r else (r.get("exception") or {}).get("type", "setup"))
    final = dict(job, trace=False)
    u = _run_on(used, dict(final, _task_obj=shared) if shared is not None else final)
    f = trace.run_traced(final)
    return {"job": job, "history_outcomes": hist_out, "used": digest(u), "fresh": digest(f)}


def _run_on(opt, job):
    job = dict(job)
    if job.get("_raise_after") is not None:
        # the earlier call fails part-way: its objective raises after k evaluations
        orig = trace.build_task
        def patched(j):
            t = orig(j)
            t.data["raise_after"] = job["_raise_after"]
            return t
        trace.build_task = patched
        try:
            return trace.run_traced(job, opt=opt)
        finally:
            trace.build_task = orig
    return trace.run_traced(job, opt=opt)


def run_c12(job):
    """maximise f vs minimise -f, same seed and configuration (stopping by cycle count)"""
    warnings.filterwarnings("ignore")
    jmax = dict(job, minmax="max", trace=False)
    jmin = dict(job, minmax="min", objective="-" + job["objective"], trace=False)
    if job.get("reuse"):
        # the maximising instance has already solved a task of the OPPOSITE direction (same space and seed); the minimising one is fresh
        # (warming up both symmetrically would cancel a direction-caching defect)
        jmax["warmup"] = {"minmax": "min", "objective": job["objective"]}
    # what a caller reads off the two results through the trend utilities (ranks 0, 1, middle, last of every generation): theorem C12.c12_readers
    jmax["utils"] = jmin["utils"] = [("all", None)]
    rmax, rmin = trace.run_traced(jmax), trace.run_traced(jmin)
    return {"job": job, "max": digest(rmax), "min": digest(rmin), "readers_max": rmax.get("utils"), "readers_min": rmin.get("utils")}


def run_c18(job):
    """constructor-config vs set_config_parameters: equal configurations, identical runs; empty construction; optimize without config"""
    warnings.filterwarnings("ignore")
    import pyvolutionary as pv
    name = job["name"]
    cls = optimizers.OPTS[name]
    cname, d = optimizers.CFGS[name]
    d = dict(d)
    d.update(job.get("cfg", {}))
    out = {"job": job}
    try:
        empty = cls()
        out["empty_ctor"] = "ok"
    except Exception as e:  # noqa
        out["empty_ctor"] = f"{type(e).__name__}: {e}"
        return out
    try:
        with contextlib.redirect_stdout(io.StringIO()):
            empty.optimize(trace.build_task(job))
        out["optimize_without_config"] = "returned"
    except ValueError:
        out["optimize_without_config"] = "ValueError"
    except Exception as e:  # noqa
        out["optimize_without_config"] = type(e).__name__
    cfgcls = getattr(pv, cname)
    try:
        built = cfgcls(**d)
        out["build"] = "ok"
    except Exception as e:  # noqa
        built = None
        out["build"] = type(e).__name__
    try:
        empty.set_config_parameters(d)
        out["set"] = "ok"
    except Exception as e:  # noqa
        out["set"] = type(e).__name__
    if built is not None and out["set"] == "ok":
        out["config_equal"] = bool(empty.configuration == built) and type(empty.configuration) is type(built)
        base_ps = optimizers.CFGS[name][1].get("population_size", 10)
        sane = 1 <= built.max_cycles <= 5 and 1 <= built.population_size <= 3 * base_ps
        if not (sane and job.get("do_run", True)):
            out["via_set"] = out["via_ctor"] = "not-run"
            return out
        out["via_set"] = digest(trace.run_traced(dict(job, trace=False), opt=empty))
        out["via_ctor"] = digest(trace.run_traced(dict(job, trace=False), opt=cls(built)))
        # re-configuration of an instance that has ALREADY RUN under another configuration (HyperTuner's use of one instance per grid)
        out["via_reconfigure"] = out["via_ctor"]
        for grow in (1.0, 1.5):     # the documented configuration (same population size), and a larger population
            other = dict(optimizers.CFGS[name][1])
            other.update({"max_cycles": 3, "fitness_error": None, "population_size": int(other["population_size"] * grow)})
            try:
                used = cls(cfgcls(**other))
                trace.run_traced(dict(job, trace=False, seed=(job.get("seed") or 0) + 1), opt=used)
                used.set_config_parameters(d)
                dg = digest(trace.run_traced(dict(job, trace=False), opt=used))
                if dg != out["via_ctor"]:
                    out["via_reconfigure"] = dg
                    break
            except Exception as e:  # noqa — the other configuration was not accepted: nothing to compare
                pass
        # the same with a dictionary that leaves every optional field to its default, on an instance whose earlier configuration had set them
        # (a sub-grid of HyperTuner that does not list them): the new configuration is Config(**d), nothing of the old one carries over
        try:
            required = {k for k, f in cfgcls.model_fields.items() if f.is_required()}
            d_min = {k: v for k, v in d.items() if k in required}
            earlier = dict(optimizers.CFGS[name][1])
            earlier.update({"max_cycles": 2, "fitness_error": None, "early_stopping": {"patience": 2, "min_delta": 0.05}})
            for k, f in cfgcls.model_fields.items():      # every optional algorithm parameter moved off its default where the fixture knows another value
                if k not in required and k in optimizers.CFGS[name][1] and k not in ("fitness_error", "early_stopping"):
                    earlier[k] = optimizers.CFGS[name][1][k]
            used2 = cls(cfgcls(**earlier))
            trace.run_traced(dict(job, trace=False, seed=(job.get("seed") or 0) + 2), opt=used2)
            used2.set_config_parameters(d_min)
            want = cfgcls(**d_min)
            out["reconf_min_config_equal"] = bool(used2.configuration == want) and type(used2.configuration) is type(want)
            if not out["reconf_min_config_equal"]:
                out["reconf_min_detail"] = {"got": json.loads(used2.configuration.model_dump_json()), "want": json.loads(want.model_dump_json())}
        except Exception as e:  # noqa
            out["reconf_min_config_equal"] = None
    return out
