"""One seeded run on a permutation task whose items are STRINGS and whose objective decodes its argument through Task.transform_solution, printed as a
digest. C07 starts this module in fresh interpreters with different PYTHONHASHSEED values: nothing a run reports may depend on the per-process salt of
str hashes (iteration order of a set / dict keyed by strings), which Task.seed does not control.
usage: python -m pvh.hashseed_probe <OptimizerName> <seed>"""
import hashlib
import json
import sys
import warnings


def main():
    warnings.filterwarnings("ignore")
    import numpy as np
    np.seterr(all="ignore")
    import pyvolutionary as pv
    from pvh import optimizers
    name, seed = sys.argv[1], int(sys.argv[2])
    cities = ["rome", "oslo", "kyiv", "bern", "riga", "baku", "lima"]
    xy = {c: (i * 1.5 % 7, (i * i) % 5) for i, c in enumerate(cities)}

    class Tour(pv.Task):
        def objective_function(self, x):
            order = self.transform_solution(x)["route"]
            return float(sum(abs(xy[a][0] - xy[b][0]) + abs(xy[a][1] - xy[b][1]) for a, b in zip(order, order[1:] + order[:1])))

    task = Tour(variables=[pv.PermutationVariable(name="route", items=list(cities))], seed=seed)
    opt = optimizers.make(name, max_cycles=3, fitness_error=None)
    out = {}
    try:
        res = opt.optimize(task)
        blob = json.dumps([[(list(map(float, a.position)) if not isinstance(a.position[0], (list, tuple)) else [list(map(float, p)) for p in a.position], float(a.cost), float(a.fitness))
                            for a in g.agents] for g in res.evolution] + [list(map(float, res.rates))], default=str)
        out = {"digest": hashlib.sha256(blob.encode()).hexdigest(), "best_cost": float(res.best_solution.cost), "generations": len(res.evolution)}
    except Exception as e:  # noqa
        out = {"raised": type(e).__name__}
    print("PROBE " + json.dumps(out))


if __name__ == "__main__":
    main()
