"""Job generation for the trace suites: (optimizer, task, configuration, mode) combinations, all from ctx.rng."""
from __future__ import annotations
import json
from pathlib import Path

from . import trace, optimizers

DATA = Path(__file__).resolve().parent / "data"


def baseline_pairs():
    p = DATA / "baseline_pairs.json"
    return json.loads(p.read_text()) if p.exists() else {}


def cfg_variants(rng, name, max_cycles_choices=(1, 2, 3, 4), pop_scales=(1,), pop_offsets=(0,), vary_params=0.0):
    """configuration overrides around the documented (fixture) configuration: cycle budget, population scale, no early exit by error"""
    base = optimizers.CFGS[name][1]
    out = {"max_cycles": rng.choice(list(max_cycles_choices)), "fitness_error": None}
    scale = rng.choice(list(pop_scales))
    if vary_params and rng.random() < vary_params:
        pvs = optimizers.param_variants(name)
        if pvs:
            k, v = rng.choice(pvs)
            out[k] = v
    off = rng.choice(list(pop_offsets))
    if scale != 1 or off:
        out["population_size"] = int(base["population_size"] * scale) + off
    return out


def make_jobs(rng, names, kinds, n_per_class, objectives=("sphere", "linear", "rastrigin", "neg"), minmaxes=("min", "max"),
              modes=("serial",), max_cycles_choices=(1, 2, 3, 4), pop_scales=(1,), pop_offsets=(0,), vary_params=0.0, multi=False, dims=(1, 2, 3, 5), only_baseline=True, trace_events=True):
    base = baseline_pairs()
    jobs = []
    for name in names:
        for _ in range(n_per_class):
            kind = rng.choice(list(kinds))
            if kind in trace.INT_KINDS and only_baseline and name not in base.get(kind, []):
                kind = rng.choice([k for k in kinds if k not in trace.INT_KINDS] or ["cont-sym"])
            specs = trace.task_specs(rng, kind, rng.choice(list(dims)))
            job = {"name": name, "kind": kind, "specs": specs, "objective": rng.choice(list(objectives)), "minmax": rng.choice(list(minmaxes)),
                   "seed": rng.randrange(1, 10 ** 6), "cfg": cfg_variants(rng, name, max_cycles_choices, pop_scales, pop_offsets, vary_params), "mode": rng.choice(list(modes)), "trace": trace_events}
            if job["mode"] != "serial":
                job["workers"] = rng.choice([1, 2, 3, 4])
            # weighted multi-objective tasks: over continuous spaces half of the time, over integer-coded ones (discrete, binary, mixed, permutation) a third of the time
            if multi and rng.random() < (0.5 if kind in ("multiobj", "cont", "cont-sym") else 0.34 if kind in trace.INT_KINDS else 0.0):
                k = rng.choice([2, 3])
                job["objective"] = f"multi{k}"
                job["weights"] = [rng.choice([0.0, 0.25, 0.5, 1.0, 2.0]) for _ in range(k)]
            jobs.append(job)
    return jobs


def small_population_jobs(rng, names, pops=(2, 3, 4, 5, 6, 7, 8, 9), kinds=("cont-sym", "cont"), max_cycles=8, objectives=("sphere", "rastrigin", "neg"), minmaxes=("min", "max"), reps=1):
    """one job per (class, small population size): counts derived from the population by int(size × fraction), group sizes and residuals degenerate (0, 1, the whole population) only here;
    configurations the class or its validators reject raise and are counted as such"""
    out = []
    for name in names:
        for p_ in pops:
            for _ in range(reps):
                kind = rng.choice(list(kinds))
                out.append({"name": name, "kind": kind + "+smallpop", "specs": trace.task_specs(rng, kind, rng.choice([2, 3])), "objective": rng.choice(list(objectives)),
                            "minmax": rng.choice(list(minmaxes)), "seed": rng.randrange(1, 10 ** 6), "cfg": {"max_cycles": max_cycles, "fitness_error": None, "population_size": p_},
                            "mode": "serial", "trace": False})
    return out


def param_sweep_jobs(rng, names, kinds=("cont-sym",), max_cycles=2, dims=(3,), objectives=("sphere",), minmaxes=("min",), **extra):
    """one job per (class, algorithm parameter, validator-accepted candidate value): the documented configuration with that one value moved"""
    out = []
    for name in names:
        for k, v in optimizers.param_variants(name):
            kind = rng.choice(list(kinds))
            job = {"name": name, "kind": kind + "+param", "specs": trace.task_specs(rng, kind, rng.choice(list(dims))), "objective": rng.choice(list(objectives)),
                   "minmax": rng.choice(list(minmaxes)), "seed": rng.randrange(1, 10 ** 6), "cfg": {"max_cycles": max_cycles, "fitness_error": None, k: v},
                   "mode": "serial", "trace": False}
            job.update(extra)
            out.append(job)
    return out
