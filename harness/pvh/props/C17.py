"""C17 — elitist optimizers never lose their best solution (S-trace: every consecutive generation pair of every listed class)."""
from __future__ import annotations
import json
from .. import trace, jobs, oracles, optimizers
from ..par import pmap

ASSUMPTIONS = [
    "the quantifier is the committed list harness/pvh/data/elitist.json: classes whose step skeleton the translator proves monotone (table obligation T17) plus classes reviewed by hand as structurally elitist whose skeleton is partly opaque (correspondence only, named in the evidence)",
    "costs are NaN-free (a NaN cost leaves the order model; such runs are counted and skipped)",
]
MODULES = ["PvModel.Props.C17", "PvModel.Props.T17", "PvModel.Props.R10", "PvModel.Props.R16"]


def elitist():
    d = json.loads((jobs.DATA / "elitist.json").read_text())
    return set(d["proved"]) | set(d.get("reviewed", {})), d


def run(ctx):
    ctx.prove(MODULES)
    ctx.suites_run.append(oracles.SUITE)
    rng = ctx.rng
    names, d = elitist()
    names = sorted(n for n in names if n in optimizers.names())
    n = 10 if not ctx.thorough else 60
    ctx.rule("every optimizer of the elitist list × tasks (continuous regimes, integer-coded pairs) × min/max × 3..8 cycles × population (+0/+1/+3, ×1.5) × every validator-accepted candidate value of every algorithm parameter × seeds × serial/thread/process: best cost of generation k+1 vs generation k in the task's direction, "
             "plus every class at every population size 2..9 (counts int(size × fraction) degenerate to 0 or the whole population only there), and best_solution vs the best ever recorded; a case = one run; non-trivial = ≥ 3 generations")
    js = jobs.make_jobs(rng, names, ["cont-sym", "cont", "cont-zero", "cont-onesided", "mixed", "disc", "binary"], n,
                        modes=("serial", "serial", "serial", "thread") if not ctx.thorough else ("serial", "thread", "process"), max_cycles_choices=(3, 4, 6, 8), pop_scales=(1, 1, 1.5), pop_offsets=(0, 0, 1, 2, 3, 5), trace_events=False)
    # the reviewed (correspondence-only) classes get extra runs over population sizes around the documented one: residual groups of every size
    js += jobs.make_jobs(rng, sorted(n_ for n_ in d.get("reviewed", {}) if n_ in optimizers.names()), ["cont-sym", "cont"], 30 if not ctx.thorough else 120, objectives=("rastrigin", "sphere", "neg"),
                         modes=("serial",), max_cycles_choices=(4, 6, 8), pop_scales=(0.55, 0.8, 1), pop_offsets=(0, 1, 2, 3, 4, 5), trace_events=False)
    js += jobs.param_sweep_jobs(rng, names, kinds=("cont-sym", "cont", "cont-zero"), max_cycles=5, objectives=("sphere", "rastrigin", "neg"), minmaxes=("min", "max"))
    sp = jobs.small_population_jobs(rng, names, reps=1 if not ctx.thorough else 4)
    # every integer parameter at the smallest / largest value its validators accept, with a cycle budget long enough for counters and thresholds to be reached
    for name in names:
        for k, v in optimizers.param_extremes(name):
            sp.append({"name": name, "kind": "cont-sym+extreme-parameter", "specs": trace.task_specs(rng, "cont-sym", 3), "objective": rng.choice(["sphere", "rastrigin", "neg"]),
                       "minmax": rng.choice(["min", "max"]), "seed": rng.randrange(1, 10 ** 6), "cfg": {"max_cycles": 25, "fitness_error": None, k: v}, "mode": "serial", "trace": False})
    for j in js[-len(js) // 2:]:
        if "+param" in j["kind"] and rng.random() < 0.5:
            j["cfg"]["population_size"] = optimizers.CFGS[j["name"]][1]["population_size"] + rng.choice([1, 2, 3])
    js += sp
    results = pmap(trace.run_traced, js)
    for r in results:
        job = r["job"]
        ok = "result" in r
        ctx.case(repr(oracles.job_key(job)), nontrivial=ok and len(r["result"]["evolution"]) >= 3, kind=f"{job['kind']}:{job['minmax']}:{job['mode']}:{'ok' if ok else 'raised'}")
    oracles.check_c17(ctx, results, set(names))
    oracles.check_skeleton_conformance(ctx, results, getattr(ctx, "facts", {}).get("steps", {}).get("classes", {}))
    ctx.extra["elitist_proved"] = sorted(d["proved"])
    ctx.extra["elitist_reviewed_correspondence_only"] = sorted(d.get("reviewed", {}))
    for r in results[:2]:
        if "result" in r:
            ctx.sample({"job": oracles.job_key(r["job"]), "generations": len(r["result"]["evolution"])})


def replay(case):
    r = trace.run_traced(dict(case["case"]["job"], trace=False))
    class C:
        def __init__(self): self.failures = []; self.dist = __import__("collections").Counter()
        def fail(self, sig, what, suite, case): self.failures.append((sig, what))
    c = C()
    oracles.check_c17(c, [r], {case["case"]["job"]["name"]})
    print(json.dumps({"job": case["case"]["job"], "failures": c.failures}, indent=1, default=str))
    return 1 if c.failures else 0
