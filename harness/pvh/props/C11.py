"""C11 — thread and process modes change scheduling, not guarantees (S-pool: permuted completion orders, injected delays, workers 1..16)."""
from __future__ import annotations
import time
import warnings

from pyvolutionary.models import BaseOptimizationConfig
from .. import trace, jobs, oracles, optimizers, pool
from ..par import pmap
from ..scripted import Scripted, make_agent, script_task
from ..lean import run_driver_parallel
from ..canon import bits, from_bits

ASSUMPTIONS = [
    "concurrent.futures completes every submitted future exactly once; the completion order is an arbitrary permutation (modelled as σ) — controlled here by replacing get_pool_results in the check's interpreter by a seeded permutation, plus runs with the real as_completed order and per-evaluation delays",
    "pre-emption inside an evaluation is outside the model; it can reach the code only through the completion order and the shared generator, both modelled",
    "pairwise distinct initial points: numpy's continuous samplers return distinct values with probability 1 (checked on continuous tasks)",
]
MODULES = ["PvModel.Props.C11", "PvModel.Props.T11", "PvModel.Props.T01", "PvModel.Props.T05", "PvModel.Props.R10", "PvModel.Props.R11", "PvModel.Props.R12", "PvModel.Props.T02"]


def pooled_combinators(job):
    """the two pooled framework combinators on a bare scripted optimizer, under a permuted completion order"""
    warnings.filterwarnings("ignore")
    import random
    rng = random.Random(job["seed"])
    mode, workers = job["mode"], job["workers"]
    out = {"job": job}
    # ---- _greedy_select_population: pooled vs serial on the same inputs
    old = [rng.choice([-1.0, 0.0, 0.0, 2.5, 7.0, rng.uniform(-5, 5)]) for _ in range(job["n"])]
    new = [rng.choice([-1.0, 0.0, 1.0, 2.5, rng.uniform(-5, 5)]) for _ in range(job["n"] + rng.choice([0, 0, 2]))]
    res = {}
    for m in ("serial", mode):
        opt = Scripted(BaseOptimizationConfig(population_size=job["n"], max_cycles=1))
        opt._task = script_task()
        from pyvolutionary.enums import ModeSolver
        opt._mode, opt._workers = ModeSolver(m), workers
        opt._population = [make_agent(i, c) for i, c in enumerate(old)]
        pool.POOL_LOG.clear()
        try:
            with pool.permuted_pool(job["seed"]):
                opt._greedy_select_population([make_agent(100 + i, c) for i, c in enumerate(new)])
        except IndexError:
            raise
        except Exception as e:  # noqa — the combinator cannot be driven outside optimize() any more (a refactor of the pooled branch): the probe cannot vouch for it
            out["probe_broken"] = f"_greedy_select_population({m}): {type(e).__name__}: {e}"
            return out
        try:
            res[m] = sorted((int(a.position[0]), bits(a.cost)) for a in opt._population)
        except Exception as e:  # noqa — what the combinator left in the population are not agents (under the probe's own pool): the probe cannot vouch for it
            out["probe_broken"] = f"_greedy_select_population({m}) left a population that is not a list of agents: {type(e).__name__}: {e}"
            return out
        if m != "serial":
            out["greedy_log"] = list(pool.POOL_LOG)
            out["greedy_order"] = [int(a.position[0]) for a in opt._population]
    out["greedy"] = res
    out["old"], out["new"] = old, new
    # ---- _generate_agents: n pooled evaluations -> n agents, pairwise distinct random points, one objective call each
    import numpy as np
    np.random.seed(job["seed"] % (2 ** 31))
    t = trace.build_task({"specs": [{"k": "contMulti", "lbs": [-5.0, 0.0], "ubs": [5.0, 1.0]}], "objective": "sphere"})
    opt = Scripted(BaseOptimizationConfig(population_size=job["n"], max_cycles=1))
    opt._task = t
    opt._mode, opt._workers = ModeSolver(mode), workers
    pool.POOL_LOG.clear()
    try:
        with pool.permuted_pool(job["seed"] + 1):
            agents = opt._generate_agents(job["n"] + 3)
    except Exception as e:  # noqa
        out["gen"] = {"raised": f"{type(e).__name__}: {e}"}
        return out
    try:
        out["gen"] = {"asked": job["n"] + 3, "got": len(agents), "distinct": len({tuple(a.position) for a in agents}), "log": [(a, b) for a, b, _ in pool.POOL_LOG],
                      "in_bounds": all(-5.0 <= a.position[0] <= 5.0 and 0.0 <= a.position[1] <= 1.0 for a in agents)}
    except Exception as e:  # noqa — what came back are not agents
        out["gen"] = {"raised": f"not-a-list-of-agents: {type(e).__name__}: {e}"}
        return out
    # ---- two consecutive pooled rounds vs the same two rounds in serial mode from the same seed (`generatePooled_perm`: each pooled round = the serial round
    #      up to order — the random stream is consumed by the parent, whatever the mode and the worker count)
    rounds = {}
    for m in ("serial", mode):
        np.random.seed(job["seed"] % (2 ** 31))
        o2 = Scripted(BaseOptimizationConfig(population_size=job["n"], max_cycles=1))
        o2._task = t
        o2._mode, o2._workers = ModeSolver(m), workers
        try:
            rounds[m] = [sorted(tuple(bits(c) for c in a.position) + (bits(a.cost),) for a in o2._generate_agents(job["n"] + 1)) for _ in range(2)]
        except Exception as e:  # noqa
            rounds[m] = f"{type(e).__name__}: {e}"
    out["gen"]["rounds_equal_serial"] = rounds["serial"] == rounds[mode]
    out["gen"]["second_round_repeats_first"] = isinstance(rounds[mode], list) and rounds[mode][0] == rounds[mode][1]
    return out


def run(ctx):
    ctx.prove(MODULES)
    ctx.suites_run.append("S-pool")
    rng = ctx.rng
    ctx.rule("pooled combinators (_greedy_select_population, _generate_agents) on a scripted optimizer under seeded permutations of the completion order × workers {1,2,3,4,8,16} × thread/process (every pair covered), two consecutive pooled rounds of _generate_agents compared with the same two serial rounds; "
             "full runs of real optimizers in thread/process mode with permuted and with real completion order, half of the thread runs with injected per-evaluation delays (overlapping evaluations), a fifth on an instance that has just solved another task in the same pooled mode: all C01/C02/C03/C10 oracles, multiset of initial positions pairwise distinct, one agent per pooled evaluation; "
             "a case = one pooled call or run; non-trivial = ≥ 2 workers and ≥ 2 pooled evaluations")
    # ---- pooled combinators under permutations
    cj = []
    for _ in range(120 if not ctx.thorough else 1200):
        cj.append({"seed": rng.randrange(10 ** 6), "mode": rng.choice(["thread", "thread", "process"]), "workers": rng.choice([1, 2, 3, 4, 8, 16]), "n": rng.choice([1, 2, 3, 5, 8, 13])})
    # every (mode, worker count) pair at least twice, the single-worker pools included
    for m in ("thread", "process"):
        for w in (1, 2, 3, 4, 8, 16):
            for n in (2, 5):
                cj.append({"seed": rng.randrange(10 ** 6), "mode": m, "workers": w, "n": n})
    req, meta = [], []
    for r in pmap(pooled_combinators, cj):
        j = r["job"]
        if "probe_broken" in r:
            # model ↔ implementation can no longer be compared on the bare combinator: a correspondence break, not by itself a violation
            ctx.case(("greedy-probe-broken", repr(j)), nontrivial=False, kind="probe-broken")
            ctx.disagree("S-pool", {"job": j}, "pooled combinator callable on a configured instance (as at the pinned tree)", r["probe_broken"])
            continue
        ctx.case(("greedy", repr(j)), nontrivial=j["workers"] >= 2 and j["n"] >= 2, kind=f"greedy:{j['mode']}:w{j['workers']}")
        if r["greedy"]["serial"] != r["greedy"][j["mode"]]:
            ctx.fail("C11/_greedy_select_population/pooled-outcome-not-a-permutation-of-serial", f"{r['greedy']}", "S-pool", {"job": j})
        g = r["gen"]
        ctx.case(("generate", repr(j)), nontrivial=j["workers"] >= 2, kind=f"generate:{j['mode']}:w{j['workers']}")
        if "raised" in g:
            ctx.fail(f"C11/_generate_agents/raises/{g['raised'].split(':')[0]}", f"{j['n'] + 3} agents with {j['workers']} workers in {j['mode']} mode: {g['raised']}", "S-pool", {"job": j})
        elif g["got"] != g["asked"] or any(a != b for a, b in g["log"]):
            ctx.fail("C11/_generate_agents/evaluation-lost-or-duplicated", f"{g}", "S-pool", {"job": j})
        elif g["distinct"] != g["got"]:
            ctx.fail(f"C11/_generate_agents/initial-points-not-pairwise-distinct/{j['mode']}", f"{g['distinct']} distinct of {g['got']}", "S-pool", {"job": j})
        elif not g["in_bounds"]:
            ctx.fail("C11/_generate_agents/out-of-bounds", f"{g}", "S-pool", {"job": j})
        elif not g.get("rounds_equal_serial", True):
            ctx.fail(f"C11/_generate_agents/pooled-rounds-differ-from-serial-rounds/{j['mode']}/w{'1' if j['workers'] == 1 else 'n'}",
                     f"two consecutive rounds of {j['n'] + 1} agents, {j['workers']} workers, {j['mode']} mode: not the serial rounds up to order"
                     + (" (the second round repeats the first: the parent's random stream did not advance)" if g.get("second_round_repeats_first") else ""), "S-pool", {"job": j})
        for sub, ret, order in r.get("greedy_log", []):
            if sub != ret or sub != j["n"]:
                ctx.fail("C11/get_pool_results/evaluation-lost-or-duplicated", f"{sub} submitted, {ret} returned for {j['n']} agents", "S-pool", {"job": j})
            # the model under the same completion order
            sold = sorted(range(j["n"]), key=lambda i: (r["old"][i], i))
            req.append({"op": "pool.greedy", "pop": [{"c": bits(c), "t": i} for i, c in enumerate(r["old"])],
                        "new": [{"c": bits(c), "t": 100 + i} for i, c in enumerate(r["new"])], "sigma": order})
            meta.append((j, r["greedy_order"]))
    for (j, impl), model in zip(meta, run_driver_parallel(req)):
        if model != impl:
            ctx.disagree("S-pool/greedy", {"job": j}, model, impl)
    # ---- full runs in pooled modes
    n = 3 if not ctx.thorough else 10
    names = optimizers.names()
    js = jobs.make_jobs(rng, names, ["cont-sym", "cont", "cont-zero"], n, modes=("thread", "process"), max_cycles_choices=(1, 2, 3), pop_scales=(1, 1.5), trace_events=True)
    for j in js:
        j["workers"] = rng.choice([1, 2, 3, 4, 8, 16])
        j["pool_perm"] = rng.choice([None, rng.randrange(10 ** 6), rng.randrange(10 ** 6)])
        if j["mode"] == "thread" and rng.random() < 0.5:
            j["delay"] = rng.choice([0.0005, 0.002])       # injected per-evaluation delay (seconds, jittered): evaluations overlap in time
    # more workers than agents (idle workers, batches that cannot all be filled): every class once, in thread mode
    wj = jobs.make_jobs(rng, names, ["cont-sym", "cont"], 1, modes=("thread",), max_cycles_choices=(2,), trace_events=True)
    for j in wj:
        j["workers"] = optimizers.CFGS[j["name"]][1]["population_size"] + rng.choice([1, 5, 7])
        j["pool_perm"] = None
        j["kind"] = j["kind"] + "+more-workers-than-agents"
    js += wj
    # a fifth of the pooled runs use an instance that has just solved ANOTHER task (other objective, shifted bounds) in the same pooled mode:
    # whatever the workers are handed must belong to the run in progress
    for j in rng.sample(js, len(js) // 5):
        if len(j["specs"]) == 1 and j["specs"][0].get("k") == "contMulti" and j.get("pool_perm") is None:
            sp = j["specs"][0]
            w = [ub - lb for lb, ub in zip(sp["lbs"], sp["ubs"])]
            j["warmup"] = {"specs": [{"k": "contMulti", "lbs": [ub + 2 * d for ub, d in zip(sp["ubs"], w)], "ubs": [ub + 3 * d for ub, d in zip(sp["ubs"], w)]}],
                           "objective": "linear" if j["objective"] != "linear" else "sphere"}
            j["kind"] = j["kind"] + "+reused-instance"
    own_init = {a["cls"] for a in getattr(ctx, "facts", {}).get("algos", []) if "_init_population" in a.get("overrides", []) and a["cls"] != "BeeColonyOptimization"}
    results = pmap(trace.run_traced, js, jobs=8)
    for r in results:
        job = r["job"]
        ok = "result" in r
        ctx.case(repr(oracles.job_key(job)), nontrivial=ok and job["workers"] >= 2, kind=f"run:{job['mode']}:w{job['workers']}:{'perm' if job['pool_perm'] is not None else 'real-order'}:{'ok' if ok else 'raised'}")
        if not ok:
            continue
        g0 = r["result"]["evolution"][0]
        # classes that build their own initial population (bit genes, countries) draw from a discrete encoding: equal points can be drawn independently
        if job["name"] in own_init:
            continue
        if len({repr(a["pos"]) for a in g0}) != len(g0):
            ctx.fail(f"C11/{job['name']}/initial-population-has-duplicate-points/{job['mode']}", f"{len({repr(a['pos']) for a in g0})} distinct of {len(g0)}", "S-pool", {"job": oracles.job_key(job)})
    # the same guarantees as in serial mode: the serial oracles, under their own property ids (so recorded findings are recognised)
    oracles.check_c01(ctx, results)
    oracles.check_c02(ctx, results)
    oracles.check_c03(ctx, results)
    oracles.check_c10(ctx, results)
    oracles.check_c05(ctx, results)
    ctx.sample({"pooled_greedy": cj[0], "run": oracles.job_key(js[0])})


def replay(case):
    import json
    c = case["case"]
    if "n" in c.get("job", {}):
        r = pooled_combinators(c["job"])
        if "probe_broken" in r:
            print(json.dumps({"job": c["job"], "probe_broken": r["probe_broken"]}, indent=1))
            return 1
        ok = r["greedy"]["serial"] == r["greedy"][c["job"]["mode"]]
        print(json.dumps({"job": c["job"], "pooled_equals_serial_as_multiset": ok}, indent=1))
        return 0 if ok else 1
    r = trace.run_traced(dict(c["job"], trace=False))
    g0 = r["result"]["evolution"][0] if "result" in r else []
    dup = len({repr(a["pos"]) for a in g0}) != len(g0)
    print(json.dumps({"job": c["job"], "initial_duplicates": dup, "exception": r.get("exception")}, indent=1, default=str))
    return 1 if dup else 0
