"""C18 — every optimizer honours the uniform construction / configuration API (S-rel)."""
from __future__ import annotations
import copy
from .. import trace, jobs, rel, optimizers, oracles
from ..par import pmap

ASSUMPTIONS = [
    "parameter dictionaries are generated around each class's documented configuration: every key dropped, mistyped, zeroed, negated, doubled, and (for list-valued bounds) reversed",
    "equality of configurations is pydantic model equality (same class, same field values)",
]
MODULES = ["PvModel.Props.C18", "PvModel.Props.T18", "PvModel.Props.C06"]


def dict_variants(rng, name, limit):
    base = optimizers.CFGS[name][1]
    out = [{}]                                  # the documented configuration itself
    for k, v in base.items():
        vs = []
        if isinstance(v, bool):
            vs = [not v]
        elif isinstance(v, (int, float)):
            vs = [0, -1, v * 2, -v, v + 1, "x", None, 10 ** 9 if isinstance(v, int) else 1e300, 0.5]
            if isinstance(v, int):
                vs += [v - 1, max(1, v // 2), v // 2 + 1]      # where cross-field validators (a bound that depends on another field) start to refuse
        elif isinstance(v, list):
            vs = [list(reversed(v)), [], v + v, [0 for _ in v], "x"]
        elif v is None:
            vs = [1, 0.1]
        else:
            vs = [None, 1]
        for x in vs:
            out.append({k: x})
        out.append({"__drop__": k})
    rng.shuffle(out)
    out = out[:limit]
    # smaller populations, always: bounds of other fields that depend on the population size (cross-field validators) start to refuse here, on both routes alike
    ps = base.get("population_size")
    if isinstance(ps, int):
        for x in range(1, min(ps, 64)):       # every smaller size: the two routes must agree on each (configuration comparison only; not run)
            out.append({"population_size": x, "__norun__": True})
    # pairs: every validator-accepted moved value of an algorithm parameter × smaller populations (a tuner's cartesian grid over both): rows the configuration
    # class refuses must be refused by set_config_parameters too (configuration comparison only; not run)
    if isinstance(ps, int):
        for k, v in optimizers.param_variants(name):
            for x in range(1, min(ps, 64), max(1, min(ps, 64) // 24)):
                out.append({k: v, "population_size": x, "__norun__": True})
    # and, for every algorithm parameter, one validator-accepted moved value that is always run (HyperTuner re-configures exactly so)
    seen = set()
    for k, v in optimizers.param_variants(name):
        if k not in seen:
            seen.add(k)
            out.append({k: v, "__run__": True})
    return out


def run(ctx):
    ctx.prove(MODULES)
    ctx.suites_run.append("S-rel")
    rng = ctx.rng
    lim = 8 if not ctx.thorough else 60
    ctx.rule("all exported optimizer classes: construct without configuration; optimize() before configuring must raise ValueError; for generated parameter dictionaries (documented values with every key "
             "dropped / mistyped / zeroed / negated / doubled / reversed) set_config_parameters(d) must succeed or fail exactly as Config(**d) and give an equal configuration; "
             "for accepted dictionaries with a sane budget (max_cycles ≤ 5, population ≤ 3× documented; a third of them) a seeded run configured either way — also by re-configuring an instance that has already run under another configuration — must be identical; a case = one (class, dictionary); non-trivial = all")
    js = []
    for name in optimizers.names():
        for var in dict_variants(rng, name, lim):
            cfg = {"max_cycles": 2, "fitness_error": None}
            job = {"name": name, "kind": "cont", "specs": [{"k": "contMulti", "lbs": [-3.0, -3.0, 0.0], "ubs": [3.0, 3.0, 6.0]}], "objective": "sphere", "minmax": "min",
                   "seed": rng.randrange(1, 10 ** 6), "mode": "serial", "cfg": dict(cfg), "variant": var}
            force_run = bool(var.pop("__run__", False)) if isinstance(var, dict) else False
            no_run = bool(var.pop("__norun__", False)) if isinstance(var, dict) else False
            if "__drop__" in var:
                job["drop"] = var["__drop__"]
            else:
                job["cfg"].update(var)
            # the run equivalence is exercised on a third of the accepted dictionaries (the configuration equivalence on all)
            job["do_run"] = (not var) or rng.random() < 0.34
            base = optimizers.CFGS[name][1]
            for k, v in var.items():
                # absurd magnitudes (10**9 countries, 1e300 rates) are still compared as configurations, but not run
                if isinstance(v, (int, float)) and not isinstance(v, bool) and isinstance(base.get(k), (int, float)) and abs(v) > 10 * max(1.0, abs(base[k])):
                    job["do_run"] = False
            if force_run:
                job["do_run"] = True
            if no_run:
                job["do_run"] = False
            js.append(job)
    res = pmap(run_one, js)
    for j, r in zip(js, res):
        ctx.case((j["name"], repr(j["variant"])), kind=f"build={r.get('build')}:set={r.get('set')}")
        if r.get("empty_ctor") != "ok":
            ctx.fail(f"C18/{j['name']}/cannot-be-constructed-without-configuration", r.get("empty_ctor"), "S-rel", {"job": j})
            continue
        if r.get("optimize_without_config") != "ValueError":
            ctx.fail(f"C18/{j['name']}/optimize-without-configuration-not-ValueError", str(r.get("optimize_without_config")), "S-rel", {"job": j})
        if (r.get("build") == "ok") != (r.get("set") == "ok") or (r.get("build") != "ok" and r.get("build") != r.get("set")):
            ctx.fail(f"C18/{j['name']}/set_config_parameters-differs-from-config-class", f"Config(**d): {r.get('build')}; set_config_parameters(d): {r.get('set')} for {j['variant']}", "S-rel", {"job": j})
        elif r.get("build") == "ok":
            if not r.get("config_equal"):
                ctx.fail(f"C18/{j['name']}/configuration-after-set_config_parameters-not-equal", f"{j['variant']}", "S-rel", {"job": j})
            elif r.get("via_set") != r.get("via_ctor"):
                ctx.fail(f"C18/{j['name']}/run-after-set_config_parameters-differs", f"{j['variant']}", "S-rel", {"job": j})
            if r.get("reconf_min_config_equal") is False:
                ctx.fail(f"C18/{j['name']}/set_config_parameters-keeps-values-of-the-previous-configuration",
                         f"after set_config_parameters(d) with only the required keys on a used instance: {r.get('reconf_min_detail')}", "S-rel", {"job": j})
            elif r.get("via_reconfigure", r.get("via_ctor")) != r.get("via_ctor"):
                ctx.fail(f"C18/{j['name']}/run-after-reconfiguring-a-used-instance-differs", f"{j['variant']}: an instance that ran under another configuration and was then given this one by set_config_parameters differs from an instance constructed with it",
                         "S-rel", {"job": j})
    ctx.sample({"class": js[0]["name"], "variant": js[0]["variant"], "outcome": {k: res[0].get(k) for k in ("empty_ctor", "optimize_without_config", "build", "set", "config_equal")}})


def run_one(job):
    job = copy.deepcopy(job)
    if job.get("drop"):
        # drop a key from the documented dictionary: rel.run_c18 merges job['cfg'] over the documented one, so mark the key for removal
        name = job["name"]
        cname, d = optimizers.CFGS[name]
        saved = copy.deepcopy(d)
        try:
            d.pop(job["drop"], None)
            job["cfg"].pop(job["drop"], None)
            return rel.run_c18(job)
        finally:
            d.clear()
            d.update(saved)
    return rel.run_c18(job)


def replay(case):
    import json
    j = case["case"]["job"]
    r = run_one(j)
    print(json.dumps({k: (v if not isinstance(v, dict) or k == "job" else "<digest>") for k, v in r.items()}, indent=1, default=str))
    bad = r.get("empty_ctor") != "ok" or r.get("optimize_without_config") != "ValueError" or (r.get("build") == "ok") != (r.get("set") == "ok") or r.get("via_set") != r.get("via_ctor")
    return 1 if bad else 0
