"""C07 — a seeded run is reproducible (S-rel: same seed in the same process after perturbing both generators, and in another process)."""
from __future__ import annotations
from .. import trace, jobs, rel, optimizers, oracles
from ..par import pmap

ASSUMPTIONS = [
    "MT19937 (numpy's global generator) is a function of its seed: what it returns is not modelled",
    "serial mode, as the property states; equal configuration and equal tasks are built from the same job description",
    "runs that raise must raise identically (same exception type and function) to count as equal",
]
MODULES = ["PvModel.Props.C07", "PvModel.Props.T07"]


def run(ctx):
    ctx.prove(MODULES)
    ctx.suites_run.append("S-rel")
    rng = ctx.rng
    n = 3 if not ctx.thorough else 12
    ctx.rule("all exported optimizers × {continuous, mixed, permutation (pairs that run today)} × integer seeds × configs (1..4 cycles; plus every validator-accepted candidate value of every algorithm parameter once): run A, then draw from numpy's and the stdlib generator, run B in the same process, "
             "run C in another worker process with a different random history; A, B, C compared bit-for-bit on every position, cost, fitness and rate; a case = one triple; non-trivial = the runs return results with ≥ 2 generations")
    js = jobs.make_jobs(rng, optimizers.names(), ["cont-sym", "cont", "cont-zero", "mixed", "perm", "disc"], n, modes=("serial",), max_cycles_choices=(1, 2, 3, 4), trace_events=False)
    js += jobs.param_sweep_jobs(rng, optimizers.names(), kinds=("cont-sym", "cont"), max_cycles=2)
    # integer parameters just above the population size (counts of auxiliary individuals — countries, archive slots — that leave some group almost empty:
    # where groups collapse and are merged or dropped, and the order of what is left matters)
    for name in optimizers.names():
        cname, d = optimizers.CFGS[name]
        ps = d.get("population_size")
        for k, v in d.items():
            if k in optimizers.BASE_KEYS or isinstance(v, bool) or not isinstance(v, int) or not isinstance(ps, int) or v <= ps:
                continue
            for x in (ps + 1, ps + 4, ps + ps // 2):
                try:
                    optimizers.config_for(name, **{k: x})
                except Exception:  # noqa — not an accepted configuration
                    continue
                kind = rng.choice(["cont-sym", "cont"])
                js.append({"name": name, "kind": kind + "+param-near-population", "specs": trace.task_specs(rng, kind, 3), "objective": rng.choice(["sphere", "rastrigin"]), "minmax": "min",
                           "seed": 1, "cfg": {"max_cycles": 8, "fitness_error": None, k: x}, "mode": "serial", "trace": False})
    for j in js:
        j["perturb"] = rng.randrange(1, 1000)
        j["seed"] = rng.choice([0, 1, 42, 2 ** 31 - 1, rng.randrange(1, 2 ** 32 - 1)])
    ab = pmap(rel.run_c07, js)
    # reversed order → every job lands in a different worker with a different history
    c = list(reversed(pmap(rel.run_single, list(reversed(js)))))
    for j, r1, r2 in zip(js, ab, c):
        nontriv = "evolution" in r1["a"] and len(r1["a"]["evolution"]) >= 2
        ctx.case(repr(oracles.job_key(j)), nontrivial=nontriv, kind=f"{j['kind']}:{'ok' if 'evolution' in r1['a'] else 'raised'}")
        if "exception" in r1["a"] and r1["a"]["exception"][0] == "TypeError" and r1["a"]["exception"][1] == "optimize":
            ctx.fail(f"C07/{j['name']}/integer-seed-rejected", f"seed={j['seed']}: {r1['a']}", "S-rel", {"job": oracles.job_key(j)})
            continue
        if r1["a"] != r1["b"]:
            ctx.fail(f"C07/{j['name']}/same-seed-differs-in-same-process", "two runs with the same seed differ after drawing from the global generators in between", "S-rel", {"job": oracles.job_key(j), "where": first_diff(r1["a"], r1["b"])})
        elif r1["a"] != r2["a"]:
            ctx.fail(f"C07/{j['name']}/same-seed-differs-across-processes", "two runs with the same seed differ between processes", "S-rel", {"job": oracles.job_key(j), "where": first_diff(r1["a"], r2["a"])})
    hashseed_runs(ctx)
    ctx.sample({"job": oracles.job_key(js[0]), "A==B": ab[0]["a"] == ab[0]["b"], "A==C": ab[0]["a"] == c[0]["a"]})


def hashseed_runs(ctx):
    """fresh interpreters with different PYTHONHASHSEED values (forked workers share their parent's salt): a permutation task over string items whose objective
    decodes through transform_solution, a few classes; the digests of everything the run reports must agree"""
    import json
    import os
    import subprocess
    import sys
    from .. import jobs as _jobs
    names = [n for n in _jobs.baseline_pairs().get("perm", []) if n in optimizers.names()]
    picked = ctx.rng.sample(names, min(len(names), 3 if not ctx.thorough else 12))
    for name in picked:
        seed = ctx.rng.choice([1, 42, 12345])
        outs = []
        for salt in ("1", "2", "77"):
            env = dict(os.environ, PYTHONHASHSEED=salt)
            p = subprocess.run([sys.executable, "-m", "pvh.hashseed_probe", name, str(seed)], env=env, capture_output=True, text=True, timeout=300)
            line = next((l for l in p.stdout.splitlines() if l.startswith("PROBE ")), None)
            outs.append(json.loads(line[6:]) if line else {"raised": "no-output", "stderr": p.stderr[-300:]})
        ctx.case(("hashseed", name, seed), nontrivial=all("digest" in o for o in outs), kind="fresh-interpreters-with-different-hash-salts:" + ("ok" if all("digest" in o for o in outs) else "raised"))
        if any(o.get("raised") == "no-output" for o in outs):
            raise OSError(f"hash-salt probe produced no output: {outs}")
        if len({json.dumps(o, sort_keys=True) for o in outs}) != 1:
            ctx.fail(f"C07/{name}/same-seed-differs-between-interpreters-with-different-hash-salts", f"PYTHONHASHSEED 1 / 2 / 77 -> {outs}", "S-rel",
                     {"optimizer": name, "seed": seed, "command": f"PYTHONHASHSEED=<1|2|77> python -m pvh.hashseed_probe {name} {seed}"})


def first_diff(a, b):
    if set(a) != set(b):
        return f"outcomes differ: {sorted(a)} vs {sorted(b)}"
    if "evolution" not in a:
        return f"{a} vs {b}"
    if len(a["evolution"]) != len(b["evolution"]):
        return f"{len(a['evolution'])} vs {len(b['evolution'])} generations"
    for k, (g1, g2) in enumerate(zip(a["evolution"], b["evolution"])):
        if g1 != g2:
            return f"generation {k}"
    return "rates" if a["rates"] != b["rates"] else "best_solution"


def replay(case):
    import json
    j = case["case"]["job"]
    j.setdefault("kind", "cont")
    r = rel.run_c07(j)
    print(json.dumps({"job": j, "equal": r["a"] == r["b"], "where": None if r["a"] == r["b"] else first_diff(r["a"], r["b"])}, indent=1, default=str))
    return 0 if r["a"] == r["b"] else 1
