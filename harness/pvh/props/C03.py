"""C03 — best_solution is the optimum of the final generation in the task's direction (S-select + S-loop)."""
from . import C04, C16

ASSUMPTIONS = C16.ASSUMPTIONS[:1] + ["final generations of the real optimizers are judged here on serial and pooled runs (permuted completion orders), scripted ones through S-loop"]


def run(ctx):
    ctx.prove(["PvModel.Props.C03", "PvModel.Props.R16", "PvModel.Props.R00"])
    C16.run_suite(ctx, only_best=True)
    C04.run_suite(ctx, "C03")
    # final generations of real optimizers, serial and pooled (the pool returns the population in completion order)
    from .. import trace, jobs, oracles, optimizers
    from ..par import pmap
    rng = ctx.rng
    js = jobs.make_jobs(rng, optimizers.names(), ["cont-sym", "cont", "disc", "binary"], 3 if not ctx.thorough else 12, modes=("serial", "thread", "thread", "process"),
                        max_cycles_choices=(1, 2, 3), trace_events=False)
    for j in js:
        if j["mode"] != "serial":
            j["workers"] = rng.choice([2, 3, 4, 8])
            j["pool_perm"] = rng.randrange(10 ** 6)
    # short serial runs whose optimum sits on the border of the box (stagnating runs: nothing improves before the budget ends), both directions
    for name in optimizers.names():
        for obj, mm in (("sphere", "max"), ("neg", "min"), ("sphere", "min"), ("linear", "max")) if not ctx.thorough else [(o, m) for o in ("sphere", "neg", "linear", "rastrigin") for m in ("min", "max")] * 2:
            js.append({"name": name, "kind": "border-optimum", "specs": trace.task_specs(rng, rng.choice(["cont-sym", "cont"]), rng.choice([2, 3])), "objective": obj, "minmax": mm,
                       "seed": rng.randrange(1, 10 ** 6), "cfg": {"max_cycles": rng.choice([1, 1, 2, 3]), "fitness_error": None}, "mode": "serial", "trace": False})
    results = pmap(trace.run_traced, js)
    for r in results:
        ctx.case(repr(oracles.job_key(r["job"])), nontrivial="result" in r, kind=f"final-generation:{r['job']['mode']}:{'ok' if 'result' in r else 'raised'}")
    oracles.check_c03(ctx, results)


def replay(case):
    if case.get("suite") == "S-loop":
        return C04.replay(case)
    return C16.replay(case)
