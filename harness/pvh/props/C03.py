"""C03 — best_solution is the optimum of the final generation in the task's direction (S-select + S-loop)."""
from . import C04, C16

ASSUMPTIONS = C16.ASSUMPTIONS[:1] + ["final generations of the 84 real optimizers are checked by the trace suite (C01 run), scripted and permuted ones here"]


def run(ctx):
    ctx.prove(["PvModel.Props.C03"])
    C16.run_suite(ctx, only_best=True)
    C04.run_suite(ctx, "C03")


def replay(case):
    if case.get("suite") == "S-loop":
        return C04.replay(case)
    return C16.replay(case)
