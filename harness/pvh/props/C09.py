"""C09 — optimize() does not modify the caller's configuration or task (deep dumps before/after every traced run, failing runs included)."""
from __future__ import annotations
import copy
from .. import trace, jobs, oracles, optimizers
from ..par import pmap

ASSUMPTIONS = [
    "equality is field-by-field equality of deep model_dump()s (floats by bit pattern) of the config and of the task (variables, bounds, weights, data, seed, direction)",
    "the harness's own call log is kept outside `task.data`",
]
MODULES = ["PvModel.Props.C09", "PvModel.Props.T09", "PvModel.Props.T14"]


def shared_config_probe(name):
    """two optimizers of one class on ONE config object, run one after the other: the object must stay as it was"""
    import warnings
    warnings.filterwarnings("ignore")
    cfg = optimizers.config_for(name, max_cycles=2, fitness_error=None)
    before = trace._dump(cfg)
    cls = optimizers.OPTS[name]
    out = []
    for seed in (1, 2):
        job = {"name": name, "specs": [{"k": "contMulti", "lbs": [-5.0, -5.0, -5.0], "ubs": [5.0, 5.0, 5.0]}], "objective": "sphere", "minmax": "min", "seed": seed, "mode": "serial", "trace": False}
        r = trace.run_traced(job, opt=cls(cfg))
        out.append("result" in r)
    return {"name": name, "unchanged": trace._dump(cfg) == before, "before": before, "after": trace._dump(cfg), "ran": out}


def shared_es_probe(name):
    """one EarlyStopping object (fields left None / set) placed in a configuration: after optimize() — returning or raising — the caller's object is as it was"""
    import warnings
    from pyvolutionary.models import EarlyStopping
    warnings.filterwarnings("ignore")
    out = {"name": name, "unchanged": True, "before": None, "after": None}
    for kw in ({"patience": None, "min_delta": None}, {"patience": 2, "min_delta": None}, {"patience": None}, {"patience": 2, "min_delta": 0.5}):
        es = EarlyStopping(**kw)
        before = trace._dump(es)
        try:
            cfg = optimizers.config_for(name, max_cycles=3, fitness_error=None, early_stopping=es)
        except Exception:  # noqa
            continue
        job = {"name": name, "specs": [{"k": "contMulti", "lbs": [-5.0, -5.0], "ubs": [5.0, 5.0]}], "objective": "sphere", "minmax": "min", "seed": 3, "mode": "serial", "trace": False}
        trace.run_traced(job, opt=optimizers.OPTS[name](cfg))
        after = trace._dump(es)
        if after != before and out["unchanged"]:
            out.update(unchanged=False, before=before, after=after)
    return out


def run(ctx):
    ctx.prove(MODULES)
    ctx.suites_run.append(oracles.SUITE)
    rng = ctx.rng
    n = 8 if not ctx.thorough else 40
    ctx.rule("all exported optimizers × tasks (continuous regimes, multi-objective with weights, integer-coded pairs, tasks whose objective raises part-way) (incl. a task edited after construction: a variable appended) × configs (incl. population sizes of both parities around the documented one and 3/5/7/11, every accepted candidate value of every algorithm parameter, reversed ranges included) × seeds × serial/thread/process: "
             "deep dump of config and task before and after every optimize(), returning or raising; plus one shared-config probe per class and shared EarlyStopping objects (fields set / left None); a case = one run; non-trivial = all")
    js = jobs.make_jobs(rng, optimizers.names(), trace.CONT_KINDS + ["multiobj", "mixed", "perm", "disc"], n,
                        modes=("serial", "serial", "thread", "process"), max_cycles_choices=(1, 2, 3, 5), pop_scales=(1, 1.5), vary_params=0.5, multi=True, trace_events=False)
    # systematic: every accepted candidate value of every algorithm parameter once (incl. reversed ranges)
    for name in optimizers.names():
        for k, v in optimizers.param_variants(name):
            js.append({"name": name, "kind": "cont-sym", "specs": trace.task_specs(rng, "cont-sym", 3), "objective": "sphere", "minmax": "min", "seed": rng.randrange(1, 10 ** 6),
                       "cfg": {"max_cycles": 2, "fitness_error": None, k: v}, "mode": "serial", "trace": False})
    # tasks whose FIRST variable is a multi-variable followed by others (their bound lists are fields of the caller's variables)
    for name in optimizers.names():
        for _ in range(2 if not ctx.thorough else 6):
            k = rng.choice([2, 3])
            first = rng.choice(["contMulti", "multiObj"])
            specs = [{"k": first, "lbs": [-5.0] * k, "ubs": [5.0] * k}, {"k": "disc", "n": 3, "pool": 1}, {"k": "cont", "lb": 0.0, "ub": 2.0}]
            js.append({"name": name, "kind": "multi-first-mixed", "specs": specs, "objective": rng.choice(["sphere", "linear"]), "minmax": rng.choice(["min", "max"]),
                       "seed": rng.randrange(1, 10 ** 6), "cfg": {"max_cycles": 2, "fitness_error": None}, "mode": "serial", "trace": False})
    # early-stopping records are part of the caller's configuration too: set, defaulted ({}), and with a field left None (accepted by the validator)
    for name in optimizers.names():
        for es in rng.sample([{"patience": None}, {"min_delta": None}, {"patience": None, "min_delta": None}, {}, {"patience": 2, "min_delta": 0.01}, {"patience": 1, "min_delta": 10.0}], 2 if not ctx.thorough else 6):
            js.append({"name": name, "kind": "early-stopping", "specs": trace.task_specs(rng, "cont-sym", 2), "objective": "sphere", "minmax": rng.choice(["min", "max"]), "seed": rng.randrange(1, 10 ** 6),
                       "cfg": {"max_cycles": 4, "fitness_error": rng.choice([None, 0.5]), "early_stopping": es}, "mode": "serial", "trace": False})
    # a task edited after construction (a variable appended: derived fields such as space_dimension are stale): optimize() — returning or raising — must not "repair" it
    for name in optimizers.names():
        js.append({"name": name, "kind": "task-edited-after-construction", "specs": trace.task_specs(rng, "cont-sym", 2), "objective": "sphere", "minmax": rng.choice(["min", "max"]),
                   "seed": rng.randrange(1, 10 ** 6), "cfg": {"max_cycles": 2, "fitness_error": None}, "mode": "serial", "trace": False,
                   "append_variable_after": rng.choice([{"k": "cont", "lb": 0.0, "ub": 2.0}, {"k": "disc", "n": 3, "pool": 1}])})
    # population sizes of the other parity and small ones: where an algorithm rounds, pads or pairs its population it must do so on its own copy of the size
    for name in optimizers.names():
        base = optimizers.CFGS[name][1]["population_size"]
        for p_ in sorted({base + 1, base - 1, 3, 5, 7, 11}):
            js.append({"name": name, "kind": "population-parity", "specs": trace.task_specs(rng, "cont-sym", 2), "objective": "sphere", "minmax": rng.choice(["min", "max"]), "seed": rng.randrange(1, 10 ** 6),
                       "cfg": {"max_cycles": 2, "fitness_error": None, "population_size": p_}, "mode": "serial", "trace": False})
    results = pmap(trace.run_traced, js)
    for r in results:
        ctx.case(repr(oracles.job_key(r["job"])), kind=f"{r['job']['kind']}:{r['job']['mode']}:{'ok' if 'result' in r else 'raised'}")
    oracles.check_c09(ctx, results)
    for p in pmap(shared_es_probe, rng.sample(optimizers.names(), 8 if not ctx.thorough else 40)):
        ctx.case(("shared-early-stopping", p["name"]), kind="shared-early-stopping-probe")
        if not p["unchanged"]:
            ctx.fail(f"C09/{p['name']}/configuration-modified/early_stopping", f"the caller's EarlyStopping object changed: {p['before']} -> {p['after']}", oracles.SUITE, {"probe": "shared-es", "name": p["name"]})
    probes = pmap(shared_config_probe, optimizers.names())
    for p in probes:
        ctx.case(("shared-config", p["name"]), kind="shared-config-probe")
        if not p["unchanged"]:
            diff = sorted(k for k in p["before"] if p["before"].get(k) != p["after"].get(k))
            ctx.fail(f"C09/{p['name']}/configuration-modified/{','.join(diff)}", f"shared config changed in fields {diff}", oracles.SUITE, {"probe": "shared-config", "name": p["name"]})
    ctx.sample({"job": oracles.job_key(results[0]["job"]), "config_fields_compared": sorted(results[0].get("cfg_before", {}))})


def replay(case):
    import json
    c = case["case"]
    if c.get("probe") == "shared-es":
        p = shared_es_probe(c["name"])
        print(json.dumps(p, indent=1, default=str))
        return 0 if p["unchanged"] else 1
    if c.get("probe") == "shared-config":
        p = shared_config_probe(c["name"])
        print(json.dumps({k: p[k] for k in ("name", "unchanged", "ran")}, indent=1))
        return 0 if p["unchanged"] else 1
    r = trace.run_traced(dict(c["job"], trace=False))
    same = r.get("cfg_before") == r.get("cfg_after") and r.get("task_before") == r.get("task_after")
    print(json.dumps({"job": c["job"], "unchanged": same}, indent=1, default=str))
    return 0 if same else 1
