"""C12 — maximising f is exactly minimising -f (S-rel: bit-exact comparison of the two evolutions)."""
from __future__ import annotations
from .. import trace, jobs, rel, optimizers, oracles
from ..par import pmap
from ..canon import from_bits, bits

ASSUMPTIONS = [
    "optimizers that consult an agent's fitness or the task direction are outside the quantifier: Ant Lion (weighs by fitness) by the statement, Imperialist Competitive (hand-builds agents from minmax; known finding C01/C02)",
    "stopping by cycle count (fitness_error = None, no early stopping), as the property states",
    "-1 * x and -x are exact in IEEE arithmetic",
]
MODULES = ["PvModel.Props.C12", "PvModel.Props.T12"]
EXCLUDED = {"AntLionOptimization", "ImperialistCompetitiveOptimization"}


def run(ctx):
    ctx.prove(MODULES)
    ctx.suites_run.append("S-rel")
    rng = ctx.rng
    n = 4 if not ctx.thorough else 16
    ctx.rule("all optimizers that do not read Agent.fitness / Task.minmax (table obligation T12) × objectives {sphere, linear, rastrigin, neg} × bounds regimes × configs (1..4 cycles; plus every validator-accepted candidate value of every algorithm parameter once) × seeds; in a third of the pairs the maximising instance has just solved a task of the opposite direction: "
             "plus weighted multi-objective tasks (2–3 objectives, random non-negative weights) and one integer-valued (plateau) objective per class; run(max, f) vs run(min, -f): same positions generation by generation, costs exact negatives, bit for bit, and the trend utilities name the same agents at ranks 0/1/middle/last of every generation (ties included); a case = one pair of runs; non-trivial = ≥ 2 generations")
    names = [x for x in optimizers.names() if x not in EXCLUDED]
    js = jobs.make_jobs(rng, names, ["cont-sym", "cont", "cont-zero", "cont-onesided", "mixed", "disc"], n, modes=("serial",), minmaxes=("max",), max_cycles_choices=(1, 2, 3, 4), trace_events=False)
    js += jobs.param_sweep_jobs(rng, names, kinds=("cont-sym", "cont"), max_cycles=2, objectives=("sphere", "rastrigin", "linear"), minmaxes=("max",))
    # weighted multi-objective tasks (the scalarisation sits between the objective and the direction): max of the weighted sum of f vs min of that of -f
    wj = jobs.make_jobs(rng, names, ["cont-sym", "cont", "multiobj"], 3 if not ctx.thorough else 8, modes=("serial",), minmaxes=("max",), max_cycles_choices=(2, 3), multi=True, trace_events=False)
    wj = [j for j in wj if j.get("weights") is not None]
    for j in wj:
        j["kind"] = j["kind"] + "+weighted"
    js += wj
    # integer-valued objective: generations with equal costs at different positions (the readers must break ties alike in both directions)
    for name in names:
        js.append({"name": name, "kind": "plateau", "specs": trace.task_specs(rng, rng.choice(["cont-sym", "cont"]), rng.choice([2, 3])), "objective": "plateau", "minmax": "max",
                   "seed": rng.randrange(1, 10 ** 6), "cfg": {"max_cycles": rng.choice([2, 3]), "fitness_error": None}, "mode": "serial", "trace": False})
    for j in rng.sample(js, len(js) // 3):
        j["reuse"] = True                      # the maximising instance has already solved a task of the opposite direction
        j["kind"] = j["kind"] + "+reused"
    res = pmap(rel.run_c12, js)
    for j, r in zip(js, res):
        a, b = r["max"], r["min"]
        ok = "evolution" in a and "evolution" in b
        ctx.case(repr(oracles.job_key(j)), nontrivial=ok and len(a["evolution"]) >= 2, kind=f"{j['kind']}:{'ok' if ok else 'raised'}")
        if not ok:
            if set(a) != set(b) or a != b:
                ctx.fail(f"C12/{j['name']}/max-f-and-min-negf-end-differently", f"{a if 'evolution' not in a else 'result'} vs {b if 'evolution' not in b else 'result'}", "S-rel", {"job": oracles.job_key(j)})
            continue
        problem = None
        if len(a["evolution"]) != len(b["evolution"]):
            problem = f"{len(a['evolution'])} vs {len(b['evolution'])} generations"
        else:
            for k, (g1, g2) in enumerate(zip(a["evolution"], b["evolution"])):
                if [x["pos"] for x in g1] != [x["pos"] for x in g2]:
                    problem = f"positions of generation {k} differ"
                    break
                # NaN has no sign: a NaN cost mirrors a NaN cost whatever the sign bit of its encoding (that a cost IS NaN is C01 / C05's business)
                nn = lambda c: "nan" if from_bits(c) != from_bits(c) else c
                if [nn(x["cost"]) for x in g1] != [nn(bits(-from_bits(x["cost"]))) for x in g2]:
                    problem = f"costs of generation {k} are not exact negatives"
                    break
        if problem:
            ctx.fail(f"C12/{j['name']}/max-f-differs-from-min-negf", problem, "S-rel", {"job": oracles.job_key(j)})
            continue
        # the readers (C12.c12_readers): the agent of rank k of generation i is at the same position with the negated cost in both results, ties included
        if any(from_bits(x["cost"]) != from_bits(x["cost"]) for g in a["evolution"] for x in g):
            ctx.dist["c12-pairs-with-nan-costs (rank readers not compared: NaN has no rank)"] += 1
            continue
        ua, ub = r.get("readers_max") or {}, r.get("readers_min") or {}
        ties = any(len({x["cost"] for x in g}) < len(g) for g in a["evolution"])
        ctx.dist["c12-pairs-with-cost-ties" if ties else "c12-pairs-without-ties"] += 1
        for key in sorted(set(ua) | set(ub)):
            x, y = ua.get(key), ub.get(key)
            if isinstance(x, dict) and isinstance(y, dict) and "pos" in x and "pos" in y:
                if x["pos"] != y["pos"] or x["trend"] != [bits(-from_bits(c)) for c in y["trend"]]:
                    ctx.fail("C12/utils/rank-k-agent-differs-between-max-f-and-min-negf", f"{j['name']}: {key}: the trend utilities name different agents in the two results"
                             + (" (generations with equal costs)" if ties else ""), "S-rel", {"job": oracles.job_key(j), "reader": key})
                    break
            elif x != y and not (isinstance(x, list) and isinstance(y, list)):
                ctx.fail("C12/utils/rank-k-agent-differs-between-max-f-and-min-negf", f"{j['name']}: {key}: {x} vs {y}", "S-rel", {"job": oracles.job_key(j), "reader": key})
                break
    ctx.sample({"job": oracles.job_key(js[0]), "generations": len(res[0]["max"].get("evolution", []))})


def replay(case):
    import json
    j = case["case"]["job"]
    j.setdefault("kind", "cont")
    r = rel.run_c12(j)
    a, b = r["max"], r["min"]
    same = "evolution" in a and "evolution" in b and all([x["pos"] for x in g1] == [x["pos"] for x in g2] for g1, g2 in zip(a["evolution"], b["evolution"]))
    ua, ub = r.get("readers_max") or {}, r.get("readers_min") or {}
    readers = all((not (isinstance(ua.get(k), dict) and "pos" in ua[k] and isinstance(ub.get(k), dict) and "pos" in ub[k])) or
                  (ua[k]["pos"] == ub[k]["pos"] and ua[k]["trend"] == [bits(-from_bits(c)) for c in ub[k]["trend"]]) for k in set(ua) | set(ub))
    print(json.dumps({"job": j, "same_positions": same, "trend_utilities_name_the_same_agents": readers}, indent=1, default=str))
    return 0 if same and readers else 1
