"""C02 — reported cost and fitness are the true objective of the reported position (S-trace with the harness re-evaluating the objective)."""
from __future__ import annotations
from .. import trace, jobs, oracles, optimizers
from ..par import pmap
from . import C01

ASSUMPTIONS = C01.ASSUMPTIONS + ["np.dot of the objective list with the weights is compared with numpy's own result (the model takes the dot product as a parameter)"]
MODULES = ["PvModel.Props.C02", "PvModel.Props.T01", "PvModel.Props.T05", "PvModel.Props.R02", "PvModel.Props.T02", "PvModel.Props.T14"]


def run(ctx):
    ctx.prove(MODULES)
    ctx.suites_run.append(oracles.SUITE)
    n = 10 if not ctx.thorough else 60
    js = jobs.make_jobs(ctx.rng, optimizers.names(), ["cont", "cont-sym", "cont-zero", "cont-scalars", "multiobj", "multiobj", "disc", "binary", "mixed", "perm", "perm"], n,
                        modes=("serial", "serial", "thread") if not ctx.thorough else ("serial", "thread", "process"), max_cycles_choices=(1, 2, 3), multi=True)
    ctx.rule("all exported optimizers × tasks (continuous, multi-objective with random non-negative weights, discrete/binary/mixed/permutation for the pairs that run today) × 4 single + 2 multi objectives × min/max × seeds × modes; a sixth of the runs on an instance that has just solved another task (same space and seed, other objective/direction); half of the weighted tasks re-weighted after construction and use; a tenth with an objective that overwrites its argument after reading it; "
             "plus one run per (class, algorithm parameter, validator-accepted candidate value incl. zero) (quick tier: every zero-valued candidate and 900 sampled others); for every reported agent the harness re-evaluates objective(position) (and np.dot with the weights) and the documented fitness formula and compares bit-for-bit; a case = one run; "
             "non-trivial = result with ≥ 2 generations")
    # a sixth of the runs use an optimizer instance that has just solved another task on the same space with the same seed
    # (other objective and direction): costs must still be those of THIS task's objective
    for j in ctx.rng.sample(js, len(js) // 6):
        j["warmup"] = {"objective": ctx.rng.choice([o for o in ("sphere", "linear", "rastrigin", "neg") if o != j["objective"]]) if j.get("weights") is None else j["objective"],
                       "minmax": "max" if j["minmax"] == "min" else "min"}
        j["kind"] = j["kind"] + "+reused-instance"
    # half of the weighted tasks were built with OTHER weights (same count), used once, then re-weighted (assignment / model_copy(update=…)):
    # reported costs are the weighted sums under the weights the task has when optimize() is called
    for j in js:
        if j.get("weights") is not None and ctx.rng.random() < 0.5:
            j["weights_initial"] = [ctx.rng.choice([0.0, 0.25, 1.0, 3.0]) for _ in j["weights"]]
            j["weights_via"] = ctx.rng.choice(["assign", "copy"])
            j["kind"] = j["kind"] + "+reweighted-task"
    # a tenth of the runs use an objective that overwrites its argument after reading it (scratch-space objectives): the reported position must still
    # be the evaluated one, i.e. the library must not hand the objective the very list it stores in the agent
    for j in ctx.rng.sample(js, len(js) // 10):
        j["scribble"] = True
        j["kind"] = j["kind"] + "+argument-overwriting-objective"
    # every validator-accepted candidate value of every algorithm parameter (zero included: an operator switched off), one run each
    sw = jobs.param_sweep_jobs(ctx.rng, optimizers.names(), kinds=("cont", "cont-sym", "cont-zero"), max_cycles=3, objectives=("sphere", "rastrigin", "neg", "linear"), minmaxes=("min", "max"))
    zero = [j for j in sw if any(v == 0 and not isinstance(v, bool) for k, v in j["cfg"].items() if k not in ("max_cycles", "fitness_error"))]
    rest = [j for j in sw if j not in zero]
    js += sw if ctx.thorough else zero + ctx.rng.sample(rest, min(len(rest), 900))
    ctx.extra["parameter_sweep"] = {"candidates": len(sw), "with_a_zero_value": len(zero), "run": len(sw) if ctx.thorough else len(zero) + min(len(rest), 900)}
    results = pmap(trace.run_traced, js)
    C01.judge(ctx, results, ["C02"])


replay = C01.replay
