"""C15 — the recorded history is faithful and the trend utilities agree with it (S-trace: deep snapshot after every cycle; utilities vs direct ranking)."""
from __future__ import annotations
from .. import trace, jobs, oracles, optimizers
from ..par import pmap
from ..canon import from_bits, bits, rnum
from ..lean import run_driver_parallel

ASSUMPTIONS = [
    "aliasing between the live population and the recorded history is invisible to the functional model: it is covered by the table obligation T01 (no store into an agent's position/cost/fitness) and by the independent deep snapshot taken after every cycle",
    "among agents of equal cost the order is CPython's stable sort order; positions of tied agents are compared as multisets of the tie class",
]
MODULES = ["PvModel.Props.C15", "PvModel.Props.T01", "PvModel.Props.R15", "PvModel.Props.R00"]


def run(ctx):
    ctx.prove(MODULES)
    ctx.suites_run.append(oracles.SUITE)
    rng = ctx.rng
    n = 8 if not ctx.thorough else 40
    ctx.rule("all exported optimizers × tasks (min and max) × 2..6 cycles (plus runs cut short by early stopping / fitness_error) × seeds × serial/thread (a quarter on an instance that has just solved a task of the opposite direction): an independent deep snapshot after every cycle is compared with result.evolution at the end; "
             "agent_trend / agent_position / best_* are called on the real result for ranks {0, 1, middle, last} and iteration subsets {all, last, reversed, every other, with repeats} and compared with a direct ranking; the recorded history is re-read after the utilities ran (they are readers); "
             "of the recorded generations and with the model; a case = one run; non-trivial = ≥ 3 generations")
    js = jobs.make_jobs(rng, optimizers.names(), ["cont-sym", "cont", "cont-zero", "mixed", "disc"], n, modes=("serial", "serial", "thread"), max_cycles_choices=(2, 3, 4, 6), multi=False)
    for j in js:
        L = j["cfg"]["max_cycles"] + 1
        j["utils"] = [("all", None), ("last", [L - 1]), ("rev", list(range(L - 1, -1, -1))), ("odd", list(range(0, L, 2))), ("rep", [0, 0, L - 1])]
    # runs that end by early stopping / fitness_error before the budget (the history is shorter than max_cycles + 1; `iters=None` only)
    es_jobs = jobs.make_jobs(rng, optimizers.names(), ["cont-sym", "cont"], 2 if not ctx.thorough else 6, modes=("serial",), max_cycles_choices=(8, 12), multi=False)
    for j in es_jobs:
        j["cfg"]["early_stopping"] = {"patience": rng.choice([1, 2, 3]), "min_delta": rng.choice([0.01, 0.5, 10.0])}
        j["cfg"]["fitness_error"] = rng.choice([None, None, 0.5])
        j["utils"] = [("all", None)]
        j["kind"] = j["kind"] + "+early-stopping"
    js += es_jobs
    for j in rng.sample(js, len(js) // 4):
        j["warmup"] = {"minmax": "max" if j["minmax"] == "min" else "min"}     # the instance has just solved a task of the opposite direction
        j["kind"] = j["kind"] + "+reused"
    results = pmap(trace.run_traced, js)
    req, meta = [], []
    for r in results:
        job = r["job"]
        ok = "result" in r
        ctx.case(repr(oracles.job_key(job)), nontrivial=ok and len(r["result"]["evolution"]) >= 3, kind=f"{job['kind']}:{job['minmax']}:{'ok' if ok else 'raised'}")
        if not ok:
            continue
        evo = r["result"]["evolution"]
        if r.get("evolution_after_utils") is not None and r["evolution_after_utils"] != evo:
            k = next(i for i, (a, b) in enumerate(zip(evo, r["evolution_after_utils"])) if a != b)
            ctx.fail(f"C15/{job['name']}/recorded-generation-altered-by-trend-utilities", f"generation {k} of result.evolution differs after agent_trend / agent_position were called on the result",
                     oracles.SUITE, {"job": oracles.job_key(job), "generation": k})
        sgn = -1.0 if job["minmax"] == "max" else 1.0
        u = r.get("utils", {})
        for key, val in u.items():
            if key in ("best_trend", "best_pos"):
                continue
            label, idx = key.split(":")
            idx = int(idx)
            iters = dict((a, b) for a, b in job["utils"])[label]
            its = list(range(len(evo))) if iters is None else iters
            if "err" in val:
                ctx.fail(f"C15/{job['name']}/trend-utility-raises-{val['err']}", f"agent_trend(idx={idx}, iters={iters})", oracles.SUITE, {"job": oracles.job_key(job)})
                continue
            # direct ranking: the idx-th best cost of each requested generation in the task's direction
            exp = []
            for i in its:
                costs = sorted((sgn * from_bits(a["cost"]) for a in evo[i]))
                exp.append(bits(sgn * costs[idx]))
            ctx.dist["utility-calls"] += 1
            if val["trend"] != exp:
                ctx.fail(f"C15/{job['name']}/agent_trend-not-idx-th-best-in-task-direction", f"idx={idx} iters={iters}: {[from_bits(b) for b in val['trend']]} expected {[from_bits(b) for b in exp]}",
                         oracles.SUITE, {"job": oracles.job_key(job), "idx": idx, "iters": iters})
            else:
                # the position returned must be the position of an agent of that generation with that cost
                for i, c, p in zip(its, val["trend"], val["pos"]):
                    if not any(a["cost"] == c and a["pos"] == p for a in evo[i]):
                        ctx.fail(f"C15/{job['name']}/agent_position-not-the-ranked-agent", f"idx={idx} generation {i}", oracles.SUITE, {"job": oracles.job_key(job), "idx": idx})
                        break
            req.append({"op": "loop.trend", "gens": [[{"c": a["cost"], "t": k} for k, a in enumerate(g)] for g in evo], "dir": job["minmax"], "idx": idx, "iters": iters})
            meta.append((job, key, [rnum(from_bits(b)) for b in val["trend"]]))
        bt = u.get("best_trend")
        if isinstance(bt, list):
            if bt[-1] != r["result"]["best"]["cost"]:
                ctx.fail(f"C15/{job['name']}/best_agent_trend-last-is-not-best_solution-cost", f"{from_bits(bt[-1])} vs {from_bits(r['result']['best']['cost'])}", oracles.SUITE, {"job": oracles.job_key(job)})
        elif bt is not None:
            ctx.fail(f"C15/{job['name']}/best_agent_trend-raises", str(bt), oracles.SUITE, {"job": oracles.job_key(job)})
    for (job, key, impl), model in zip(meta, run_driver_parallel(req)):
        if model != impl:
            ctx.disagree(oracles.SUITE + "/utils", {"job": oracles.job_key(job), "call": key}, model, impl)
    oracles.check_c15_history(ctx, results)
    for r in results[:2]:
        if "result" in r:
            ctx.sample({"job": oracles.job_key(r["job"]), "snapshots": len(r["snaps"]), "best_trend": [from_bits(b) for b in r.get("utils", {}).get("best_trend", [])] if isinstance(r.get("utils", {}).get("best_trend"), list) else None})


def replay(case):
    import json
    job = dict(case["case"]["job"], trace=True)
    L = job["cfg"]["max_cycles"] + 1
    job["utils"] = [("all", None)]
    r = trace.run_traced(job)
    class C:
        def __init__(self): self.failures = []; self.dist = __import__("collections").Counter()
        def fail(self, sig, what, suite, case): self.failures.append((sig, what))
    c = C()
    oracles.check_c15_history(c, [r])
    bt = r.get("utils", {}).get("best_trend")
    bad = bool(c.failures) or (isinstance(bt, list) and "result" in r and bt[-1] != r["result"]["best"]["cost"])
    print(json.dumps({"job": job, "history_failures": c.failures, "best_trend_last_ok": not (isinstance(bt, list) and bt[-1] != r["result"]["best"]["cost"])}, indent=1, default=str))
    return 1 if bad else 0
