"""C06 — a valid problem yields a result; an invalid call is rejected up front.

strict stream   : continuous tasks (single, multi, multi-objective; min/max; any dimension; bounds at any finite scale) × configurations around the
                  documented one × all optimizers × modes: ANY exception is a failure keyed (optimizer, exception type, raising function)
baseline stream : integer-coded tasks per (optimizer, encoding) pair of data/baseline_pairs.json: a pair that works today must not fail wholesale
malformed stream: invalid calls must raise ValueError/ValidationError before any cycle runs (scripted optimizer: zero steps)
"""
from __future__ import annotations
import math
from pydantic import ValidationError

from pyvolutionary.models import BaseOptimizationConfig, EarlyStopping
from pyvolutionary import ContinuousVariable, ContinuousMultiVariable, MultiObjectiveVariable, BinaryVariable
from .. import trace, jobs, oracles, optimizers, gen
from ..par import pmap
from ..scripted import Scripted, make_agent, script_task, quiet, ScriptTask
from ..lean import run_driver_parallel
from ..canon import bits, rerr

ASSUMPTIONS = [
    "the numerical bodies of the 84 update rules are outside the model: that they raise nothing is established by the strict stream only (correspondence-level, not a theorem); what is proved is the framework: prologue, validators, weight check, sign flip, totality of the loop given a total step",
    "configurations: cycle budgets from 1, population sizes at and above the documented (fixture) scale, other algorithm parameters at their documented values",
    "a run that is still going after 120 s is reported as non-termination (timeout) rather than waited for",
]
MODULES = ["PvModel.Props.C06", "PvModel.Props.T04", "PvModel.Props.R00", "PvModel.Props.R02", "PvModel.Props.T02"]


def invalid_calls(ctx):
    """malformed stream on the scripted optimizer + the model's prologue"""
    gens = [[make_agent(0, 1.0, 0.5)], [make_agent(1, 0.5, 0.75)], [make_agent(2, 0.25, 0.875)]]
    cfg = BaseOptimizationConfig(population_size=1, max_cycles=2, fitness_error=None)
    cases = []
    for has_cfg in (True, False):
        for workers in (None, -3, 0, 1, 4):
            for mode in (None, "serial", "thread", "process", "parallel", "", "SERIAL"):
                cases.append((has_cfg, workers, mode))
    reqs, impls, metas = [], [], []
    for has_cfg, workers, mode in cases:
        opt = Scripted(cfg if has_cfg else None, gens)
        try:
            quiet(opt.optimize, script_task(), mode=mode, workers=workers)
            impl = "ok"
        except Exception as e:  # noqa
            impl = rerr(e)
        valid = has_cfg and (workers is None or workers > 0) and (mode is None or mode in ("serial", "thread", "process"))
        meta = {"hasConfig": has_cfg, "workers": workers, "mode": mode}
        ctx.case(("invalid-call", has_cfg, workers, mode), kind="malformed:call")
        if not valid:
            if impl == "ok" or impl.get("err") not in ("ValueError", "ValidationError"):
                ctx.fail("C06/optimize/invalid-call-not-rejected-with-ValueError", f"{meta} -> {impl}", "S-loop", meta)
            elif opt.steps != 0:
                ctx.fail("C06/optimize/invalid-call-rejected-after-cycles-ran", f"{meta}: {opt.steps} steps", "S-loop", meta)
        elif impl != "ok":
            ctx.fail("C06/optimize/valid-call-rejected", f"{meta} -> {impl}", "S-loop", meta)
        if has_cfg:
            # a rejected (or served) call must leave the instance able to serve the next valid call: bare, serial and thread
            for kw in ({}, {"mode": "serial"}, {"mode": "thread"}):
                ctx.case(("call-after", has_cfg, workers, mode, tuple(kw.items())), kind="malformed:then-valid-call")
                try:
                    quiet(opt.optimize, script_task(), **kw)
                    if opt.steps < 1:
                        ctx.fail("C06/optimize/valid-call-after-another-call-runs-no-cycle", f"after {meta}: optimize(task, {kw}) ran {opt.steps} cycles", "S-loop", dict(meta, then=kw))
                except Exception as e:  # noqa
                    ctx.fail("C06/optimize/valid-call-rejected-after-another-call", f"after {meta}: optimize(task, {kw}) -> {rerr(e)}", "S-loop", dict(meta, then=kw))
        reqs.append({"op": "loop.run", "gens": [[{"c": bits(a.cost), "f": bits(a.fitness), "t": i}] for i, (a,) in enumerate(gens)], "dir": "min", "maxCycles": 2,
                     "fe": None, "es": None, "hasConfig": has_cfg, "workers": workers, "modeValid": None if mode is None else mode in ("serial", "thread", "process")})
        impls.append(impl)
        metas.append(meta)
    for meta, impl, model in zip(metas, impls, run_driver_parallel(reqs)):
        m = "ok" if isinstance(model, dict) and "evolution" in model else model
        if m != impl:
            ctx.disagree("S-loop/prologue", meta, m, impl)
    # weights / bounds / sizes: rejected at construction or by the first _init_agent, before any cycle
    for name, build in {
        "negative-weights": lambda: trace.build_task({"specs": [{"k": "cont", "lb": 0.0, "ub": 1.0}], "objective": "multi2", "weights": [1.0, -0.5]}),
        "inverted-bounds": lambda: ContinuousVariable(name="x", lower_bound=2.0, upper_bound=1.0),
        "equal-bounds": lambda: ContinuousVariable(name="x", lower_bound=1.0, upper_bound=1.0),
        "length-mismatch": lambda: ContinuousMultiVariable(name="x", lower_bounds=[0.0, 0.0], upper_bounds=[1.0]),
        "inverted-multiobjective-bounds": lambda: MultiObjectiveVariable(name="x", lower_bounds=[0.0, 3.0], upper_bounds=[1.0, 2.0]),
        "non-positive-size": lambda: BinaryVariable(name="b", n_vars=0),
    }.items():
        ctx.case(("invalid-definition", name), kind="malformed:definition")
        try:
            build()
            ctx.fail(f"C06/definition/{name}-accepted", "constructed without error", "S-loop", {"what": name})
        except (ValueError, ValidationError):
            pass
        except Exception as e:  # noqa
            ctx.fail(f"C06/definition/{name}-wrong-exception", repr(e), "S-loop", {"what": name})
    for nobj, w in (("multi2", [1.0]), ("multi2", [1.0, 1.0, 1.0]), ("multi3", [0.5, 0.5]), ("sphere", [1.0, 2.0]), ("multi2", None)):
        for mm in ("min", "max"):
            job = {"name": "ParticleSwarmOptimization", "kind": "cont", "specs": [{"k": "contMulti", "lbs": [-1.0, -1.0], "ubs": [1.0, 1.0]}], "objective": nobj,
                   "minmax": mm, "weights": w, "seed": 1, "cfg": {"max_cycles": 2, "fitness_error": None}, "mode": "serial"}
            r = trace.run_traced(job)
            ctx.case(("weights-mismatch", nobj, repr(w), mm), kind="malformed:weights")
            e = r.get("exception")
            if not e or e["type"] not in ("ValueError", "ValidationError"):
                ctx.fail("C06/optimize/weight-count-mismatch-not-rejected", f"{nobj} with weights {w}: {e or 'returned a result'}", "S-trace", {"job": oracles.job_key(job)})
            elif r.get("snaps"):
                ctx.fail("C06/optimize/weight-count-mismatch-rejected-after-cycles-ran", f"{len(r['snaps'])} cycles ran", "S-trace", {"job": oracles.job_key(job)})


def after_weighted_task(ctx):
    """the same optimizer instance first solves a WEIGHTED task, then is handed a task without weights: a single-objective one must run, a k-objective one
    without weights must still be rejected before any cycle (nothing of the earlier task's weights may survive on the instance)"""
    for name in ("ParticleSwarmOptimization", "GreyWolfOptimization"):
        for mode in ("serial", "thread"):
            warm = {"objective": "multi3", "weights": [0.5, 1.0, 2.0], "seed": 5}
            base = {"name": name, "kind": "cont", "specs": [{"k": "contMulti", "lbs": [-1.0, -1.0], "ubs": [1.0, 1.0]}], "minmax": "min", "weights": None, "seed": 1,
                    "cfg": {"max_cycles": 2, "fitness_error": None}, "mode": mode, "workers": 2, "warmup": warm}
            r = trace.run_traced(dict(base, objective="multi3"))
            ctx.case(("weights-mismatch-after-weighted-task", name, mode), kind="malformed:weights:reused-instance")
            e = r.get("exception")
            if not e or e["type"] not in ("ValueError", "ValidationError"):
                ctx.fail("C06/optimize/weight-count-mismatch-not-rejected", f"3 objectives without weights on an instance that has just solved a weighted task: {e or 'returned a result'}", "S-trace",
                         {"job": oracles.job_key(dict(base, objective="multi3"))})
            r = trace.run_traced(dict(base, objective="sphere"))
            ctx.case(("single-objective-after-weighted-task", name, mode), kind="strict:reused-instance-after-weighted-task")
            if "result" not in r:
                e = r.get("exception") or {"type": "setup", "msg": r.get("setup_error"), "func": "?"}
                ctx.fail(f"C06/{name}/valid-task-fails-after-a-weighted-task-on-the-same-instance", f"{e['type']}: {e.get('msg')} (in {e.get('func')})", "S-trace",
                         {"job": oracles.job_key(dict(base, objective="sphere"))})


def cfg_with_es(rng, name):
    c = jobs.cfg_variants(rng, name, (1, 1, 2, 3, 5), (1, 1, 1.5, 2, 3), (0, 0, 0, 1, 3), 0.3)
    r = rng.random()
    if r < 0.25:
        c["early_stopping"] = {"patience": rng.choice([1, 2, 3]), "min_delta": rng.choice([1e-4, 0.01, 1.0])}
    elif r < 0.35:
        c["early_stopping"] = {}
    if rng.random() < 0.3:
        c["fitness_error"] = rng.choice([0.0, 0.01, 0.5, 10.0])
    return c


def run(ctx):
    ctx.prove(MODULES)
    ctx.suites_run += ["S-loop", oracles.SUITE]
    rng = ctx.rng
    ctx.rule("strict: all optimizers × continuous tasks (7 bound regimes, dimension 1..8, 4 single + 2 weighted multi objectives, min/max) × configs (max_cycles 1,2,3,5; population 1×..3× (+0/+1/+3); one algorithm parameter moved inside its validator range in 30% of the runs; "
             "early stopping / fitness_error variants, early-stopping fields left None; one objective given as scalar + one weight / as a one-element list with and without a weight; instances re-used across solver modes) × serial/thread(/process); baseline: ≥ 3 integer-coded tasks per working (optimizer, encoding) pair; malformed: every combination of "
             "{config present/absent} × workers {None,-3,0,1,4} × mode {None, 3 valid, 3 invalid} + invalid definitions + weight-count mismatches; a case = one run / call; non-trivial = all; distinct by job")
    invalid_calls(ctx)
    after_weighted_task(ctx)
    names = optimizers.names()
    n = 12 if not ctx.thorough else 80
    js = []
    for name in names:
        for _ in range(n):
            kind = rng.choice(trace.CONT_KINDS + ["multiobj"])
            job = {"name": name, "kind": kind, "specs": trace.task_specs(rng, kind, rng.choice([1, 2, 3, 4, 5, 8])), "objective": rng.choice(["sphere", "linear", "rastrigin", "neg"]),
                   "minmax": rng.choice(["min", "max"]), "seed": rng.randrange(1, 10 ** 6), "cfg": cfg_with_es(rng, name),
                   "mode": rng.choice(["serial", "serial", "serial", "thread"] if not ctx.thorough else ["serial", "serial", "thread", "process"]), "trace": False, "stream": "strict"}
            if job["mode"] != "serial":
                job["workers"] = rng.choice([1, 2, 4, 16, 64])         # also more workers than agents
            if rng.random() < 0.25:
                k = rng.choice([2, 3])
                job["objective"], job["weights"] = f"multi{k}", [rng.choice([0.0, 0.5, 1.0, 2.0]) for _ in range(k)]
            js.append(job)
    # systematic sweep: every accepted candidate value of every algorithm parameter, at the documented population size
    for name in names:
        for k, v in optimizers.param_variants(name):
            for mc in (1, 3):
                js.append({"name": name, "kind": "cont-sym", "specs": trace.task_specs(rng, rng.choice(["cont-sym", "cont", "cont-zero"]), rng.choice([2, 3, 5])), "objective": rng.choice(["sphere", "rastrigin"]),
                           "minmax": rng.choice(["min", "max"]), "seed": rng.randrange(1, 10 ** 6), "cfg": {"max_cycles": mc, "fitness_error": None, k: v}, "mode": "serial", "trace": False, "stream": "strict"})
    # one objective, written the two other ways the signature `float | list[float]` / `objective_weights` admit: a scalar objective with ONE weight,
    # and a one-element list without weights (the weight-count check passes in both: 1 == 1)
    for name in rng.sample(names, 8 if not ctx.thorough else 30):
        for objective, weights in (("sphere", [rng.choice([0.5, 1.0, 2.0])]), ("multi1", None), ("multi1", [rng.choice([0.5, 1.0, 2.0])])):
            js.append({"name": name, "kind": "cont-sym", "specs": trace.task_specs(rng, "cont-sym", 3), "objective": objective, "weights": weights, "minmax": rng.choice(["min", "max"]),
                       "seed": rng.randrange(1, 10 ** 6), "cfg": {"max_cycles": 2, "fitness_error": None}, "mode": "serial", "trace": False, "stream": "strict", "one_objective": True})
    # one instance used in one solver mode and then in another (what HyperTuner.resolve / Multitask do with a user's optimizer object): every
    # ordered pair of modes, a few classes each
    for name in rng.sample(names, 4 if not ctx.thorough else 20):
        for first, second in (("thread", "process"), ("process", "thread"), ("thread", "serial"), ("process", "serial"), ("serial", "process"), ("serial", "thread")):
            js.append({"name": name, "kind": "cont-sym", "specs": trace.task_specs(rng, "cont-sym", 2), "objective": "sphere", "minmax": "min", "seed": rng.randrange(1, 10 ** 6),
                       "cfg": {"max_cycles": 2, "fitness_error": None}, "mode": second, "workers": 2, "warmup": {"mode": first, "seed": rng.randrange(1, 10 ** 6)},
                       "trace": False, "stream": "strict"})
    # early-stopping records with a field left None: accepted by the validator (`int | None`, `float | None`), hence "valid configurations"
    for name in rng.sample(names, 6 if not ctx.thorough else 30):
        for es in ({"patience": None}, {"min_delta": None}, {"patience": None, "min_delta": None}):
            js.append({"name": name, "kind": "cont-sym", "specs": trace.task_specs(rng, "cont-sym", 3), "objective": "sphere", "minmax": "min", "seed": rng.randrange(1, 10 ** 6),
                       "cfg": {"max_cycles": 6, "fitness_error": None, "early_stopping": es}, "mode": "serial", "trace": False, "stream": "strict", "es_none": True})
    base = jobs.baseline_pairs()
    per_pair = 3 if not ctx.thorough else 8
    for kind, ns in base.items():
        for name in ns:
            if name not in names:
                continue
            for _ in range(per_pair):
                js.append({"name": name, "kind": kind, "specs": trace.task_specs(rng, kind, rng.choice([2, 3, 4])), "objective": rng.choice(["sphere", "linear", "neg"]),
                           "minmax": rng.choice(["min", "max"]), "seed": rng.randrange(1, 10 ** 6), "cfg": {"max_cycles": rng.choice([1, 2, 3]), "fitness_error": None},
                           "mode": "serial", "trace": False, "stream": "baseline"})
    results = pmap(trace.run_traced, js)
    pair = {}
    for r in results:
        job = r["job"]
        ok = "result" in r
        ctx.case(repr(oracles.job_key(job)), kind=f"{job['stream']}:{job['kind']}:{job['mode']}:{'ok' if ok else 'raised'}")
        if job["stream"] == "strict":
            if "setup_error" in r:
                ctx.fail(f"C06/{job['name']}/valid-configuration-or-task-rejected", r["setup_error"], oracles.SUITE, {"job": oracles.job_key(job)})
            elif not ok:
                e = r["exception"]
                if job.get("es_none") and e["func"] == "__should_stop__" and e["type"] == "TypeError":
                    ctx.fail("C06/optimize/TypeError/__should_stop__/early-stopping-field-None", f"{e['type']}: {e['msg']} ({e['file']}:{e['line']} in {e['func']})", oracles.SUITE,
                             {"job": oracles.job_key(job), "exception": e})
                    continue
                ctx.fail(f"C06/{oracles.exception_signature(r)}", f"{e['type']}: {e['msg']} ({e['file']}:{e['line']} in {e['func']})", oracles.SUITE, {"job": oracles.job_key(job), "exception": e})
            else:
                res = r["result"]
                if not res["evolution"] or res["best"] is None or len(res["rates"]) != len(res["evolution"]) - 1:
                    ctx.fail(f"C06/{job['name']}/incomplete-result", "result lacks evolution / rates / best_solution", oracles.SUITE, {"job": oracles.job_key(job)})
        else:
            pair.setdefault((job["name"], job["kind"]), []).append((ok, r))
    for (name, kind), rs in pair.items():
        if not any(ok for ok, _ in rs):
            e = rs[0][1].get("exception") or {"type": "setup", "func": "?", "msg": rs[0][1].get("setup_error")}
            ctx.fail(f"C06/{name}/{kind}-tasks-fail-wholesale", f"all {len(rs)} generated {kind} tasks failed, e.g. {e['type']} in {e['func']}: {e.get('msg')}", oracles.SUITE,
                     {"job": oracles.job_key(rs[0][1]["job"]), "exception": e})
    for r in results[:2]:
        ctx.sample({"job": oracles.job_key(r["job"]), "outcome": "result" if "result" in r else r.get("exception")})


def replay(case):
    import json
    c = case["case"]
    if "job" in c:
        r = trace.run_traced(dict(c["job"], trace=False))
        print(json.dumps({"job": c["job"], "exception": r.get("exception"), "ok": "result" in r}, indent=1, default=str))
        return 0 if "result" in r else 1
    print(json.dumps(case, indent=1, default=str))
    return 1
