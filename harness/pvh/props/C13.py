"""C13 — variable types obey their domain laws (S-vars)."""
from __future__ import annotations
import itertools
import math
import numpy as np
from pydantic import ValidationError

from pyvolutionary import (ContinuousVariable, ContinuousMultiVariable, DiscreteVariable, DiscreteMultiVariable,
                           PermutationVariable, MultiObjectiveVariable, BinaryVariable)
from .. import gen
from ..canon import bits, rcoord, rerr, raw_json, coord_json, rnum, is_int
from ..lean import run_driver_parallel

SUITE = "S-vars"
ASSUMPTIONS = [
    "randomize() draws through numpy's samplers (np.random.uniform/choice/permutation), trusted; membership of samples is a test (counted separately), not a theorem",
    "a DiscreteVariable with an empty choice list has an empty domain and is outside the quantifier",
    "huge Python ints beyond 2**53 are not generated (candidates are doubles in every optimizer)",
]


def call(f, *a):
    try:
        return True, f(*a)
    except Exception as e:  # noqa
        return False, e


def render(ok, v):
    return rcoord(v) if ok else rerr(v)


class Cases:
    """accumulates (request, implementation answer, meta) triples, then asks the model in one batch."""

    def __init__(self, ctx):
        self.ctx = ctx
        self.req, self.impl, self.meta = [], [], []

    def add(self, req, impl, meta):
        self.req.append(req)
        self.impl.append(impl)
        self.meta.append(meta)

    def flush(self):
        ans = run_driver_parallel(self.req)
        return list(zip(self.req, self.impl, ans, self.meta))


def run(ctx):
    ctx.prove(["PvModel.Props.C13", "PvModel.Props.C13L", "PvModel.Props.R13", "PvModel.Props.R14", "PvModel.Props.T13"])
    ctx.suites_run.append(SUITE)
    rng = ctx.rng
    n_decl = 60 if not ctx.thorough else 600
    ctx.rule("declarations: continuous bounds at scales 1e-300..1e300 (symmetric, one-sided, 1-ulp wide, asymmetric), "
             "discrete choice lists of 1..6 (built directly, derived by model_copy(update=…) from a longer one, or re-assigned after use) and of 16384 / 16385 / 20000 / 10^6 choices, permutations of 1..7 distinct items of mixed type, multi/binary/multi-objective of 1..4 children; "
             "values: in range, out of range, boundaries, ±1 ulp around bounds, huge, ±inf, NaN, fractional, numpy scalar types, ties in permutation keys; "
             "a case is (declaration, value, value type, operation); trivial = none (every case exercises clip/int/argsort)")
    C = Cases(ctx)
    mem_checks = Cases(ctx)

    # ---------------- continuous ----------------
    for _ in range(n_decl):
        lb, ub = gen.rand_bounds(rng)
        ok, v = call(lambda: ContinuousVariable(name="x", lower_bound=lb, upper_bound=ub))
        if not ok:
            ctx.fail("C13/ContinuousVariable/valid-bounds-rejected", f"valid bounds rejected: {lb},{ub}", SUITE, {"lb": lb, "ub": ub})
            continue
        var = {"k": "cont", "lb": bits(lb), "ub": bits(ub)}
        for x0 in gen.values_around(rng, lb, ub):
            for x in gen.as_numpy_variants(rng, x0):
                meta = {"kind": "cont", "lb": lb, "ub": ub, "x": repr(x), "xtype": gen.type_tag(x)}
                ok1, y = call(v.correct, x)
                C.add({"op": "var.correct", "var": var, "x": bits(x)}, render(ok1, y), {**meta, "op": "correct"})
                if ok1:
                    if not isinstance(y, float):
                        ctx.fail("C13/ContinuousVariable.correct/not-float", f"correct returned {type(y).__name__}", SUITE, meta)
                    ok2, y2 = call(v.correct, y)
                    C.add({"op": "var.correct2", "var": var, "x": bits(x)}, render(ok2, y2), {**meta, "op": "correct2"})
                    finite = math.isfinite(float(x))
                    if finite:
                        # oracle (the Lean predicate `Var.mem` on the implementation's output): member, idempotent
                        mem_checks.add({"op": "var.mem", "var": var, "c": coord_json(y)}, None,
                                       {**meta, "op": "mem", "sig": "C13/ContinuousVariable.correct/out-of-domain", "y": repr(y)})
                        if not (ok2 and bits(y2) == bits(y)):
                            ctx.fail("C13/ContinuousVariable.correct/not-idempotent", f"correct(correct({x!r}))={y2!r} != {y!r}", SUITE, meta)
                        if lb <= float(x) <= ub and bits(y) != bits(x):
                            ctx.fail("C13/ContinuousVariable.correct/member-changed", f"correct({x!r})={y!r}", SUITE, meta)
                    if v.decode(y) is not y and v.decode(y) != y and not math.isnan(y):
                        ctx.fail("C13/ContinuousVariable.decode/not-identity", f"decode({y!r})", SUITE, meta)
        for _ in range(5):  # randomize (test)
            r = v.randomize()
            ctx.case(("cont-rand", lb, ub, r), kind="randomize")
            if not (lb <= r <= ub and math.isfinite(r)):
                ctx.fail("C13/ContinuousVariable.randomize/out-of-domain", f"{r!r} not in [{lb},{ub}]", SUITE, {"lb": lb, "ub": ub, "r": r})

    # ---------------- discrete ----------------
    pools = [["a", "b", "c", "d", "e", "f"], [10, 20, 30, 40, 50, 60], [0.5, "x", 3, None, (1, 2), True]]
    big = [(N, list(range(N))) for N in (16384, 16385, 20000, 10 ** 6)]       # index arithmetic in doubles: len − 1, len − ε, … near powers of two
    for n, pool, how in [(n, pool, how) for n in range(1, 7) for pool in pools for how in ("fresh", "copy-update", "assigned")] + [(N, pl, "fresh") for N, pl in big]:
        if True:
            choices = pool[:n]
            if how == "fresh":
                v = DiscreteVariable(name="d", choices=choices)
            elif how == "copy-update":
                # a variable derived from another one the pydantic way: nothing computed from the OLD choice list may survive
                v = DiscreteVariable(name="d", choices=pool + ["extra"]).model_copy(update={"choices": choices})
            else:
                v = DiscreteVariable(name="d", choices=pool + ["extra"])
                v.correct(0.0)
                v.choices = choices
            var = {"k": "disc", "n": n}
            base = [-1.0, 0.0, 0.5, 1.0, n - 1.0, n - 1 + 0.999, float(n), n + 5.5, -0.3, 1e308, -1e308, math.inf, -math.inf, math.nan,
                    float(np.nextafter(n - 1.0, math.inf)), float(np.nextafter(0.0, -math.inf)), -0.0]
            base += [rng.uniform(-2, n + 2) for _ in range(6)]
            for x0 in base:
                for x in gen.as_numpy_variants(rng, x0):
                    meta = {"kind": "disc", "n": n, "choices": repr(choices)[:80], "built": how, "x": repr(x), "xtype": gen.type_tag(x)}
                    ok1, y = call(v.correct, x)
                    C.add({"op": "var.correct", "var": var, "x": bits(x)}, render(ok1, y), {**meta, "op": "correct"})
                    if math.isfinite(float(x)):
                        if not ok1:
                            ctx.fail("C13/DiscreteVariable.correct/raises", f"correct({x!r}) raised {y!r}", SUITE, meta)
                            continue
                        if type(y) is not int:
                            ctx.fail("C13/DiscreteVariable.correct/not-int", f"correct({x!r}) returned {type(y).__name__}", SUITE, meta)
                        mem_checks.add({"op": "var.mem", "var": var, "c": coord_json(y)}, None,
                                       {**meta, "op": "mem", "sig": "C13/DiscreteVariable.correct/out-of-domain", "y": repr(y)})
                        ok2, y2 = call(v.correct, y)
                        if not (ok2 and y2 == y):
                            ctx.fail("C13/DiscreteVariable.correct/not-idempotent", f"correct(correct({x!r}))={y2!r} != {y!r}", SUITE, meta)
                        if float(x) == int(float(x)) and 0 <= x <= n - 1 and y != int(x):
                            ctx.fail("C13/DiscreteVariable.correct/member-changed", f"correct({x!r})={y!r}", SUITE, meta)
                        okd, d = call(v.decode, y)
                        if not okd or not (0 <= y < n and d is choices[y]):
                            ctx.fail("C13/DiscreteVariable.decode/not-a-choice", f"decode({y!r})={d!r}", SUITE, meta)
            for _ in range(5):
                r = v.randomize()
                ctx.case(("disc-rand", n, int(r)), kind="randomize")
                if not (is_int(r) and 0 <= r < n):
                    ctx.fail("C13/DiscreteVariable.randomize/out-of-domain", f"{r!r}", SUITE, {"n": n})

    # ---------------- permutation ----------------
    item_pools = [list("abcdefg"), [3, 1, 4, 15, 9, 2, 6], ["b", 2, "a", 1.5, "c", 0, "d"]]
    from pyvolutionary.models import LabelEncoder
    for n in range(1, 8):
        for pool in item_pools:
            items = pool[:n]
            v = PermutationVariable(name="p", items=items)
            var = {"k": "perm", "n": n}
            labels = sorted(set(items), key=lambda x: (isinstance(x, (int, float)), x))
            keysets = []
            for _ in range(6 if not ctx.thorough else 40):
                keysets.append(("distinct", [rng.uniform(-5, 5) for _ in range(n)]))
            for _ in range(3):
                p = list(range(n)); rng.shuffle(p)
                keysets.append(("member", [float(i) for i in p]))
                keysets.append(("member-int", p))
            keysets.append(("ties", [float(rng.randrange(2)) for _ in range(n)]))
            # integer-valued item indexes with repetitions — in range, some with the same sum as a true permutation
            for _ in range(4):
                keysets.append(("int-ties", [rng.randrange(n) for _ in range(n)]))
            if n >= 3:
                p = list(range(n)); rng.shuffle(p)
                i, j = rng.sample(range(n), 2)
                if abs(p[i] - p[j]) >= 2:
                    lo, hi = (i, j) if p[i] < p[j] else (j, i)
                    q = list(p); q[lo] += 1; q[hi] -= 1          # same sum, two equal entries possible
                    keysets.append(("int-ties-same-sum", q))
                    keysets.append(("int-ties-same-sum", [float(x) for x in q]))
            keysets.append(("inf", [rng.choice([math.inf, -math.inf, 0.5]) for _ in range(n)]))
            keysets.append(("huge", [rng.uniform(-1e308, 1e308) for _ in range(n)]))
            for kind, keys in keysets:
                meta = {"kind": "perm", "n": n, "items": repr(items), "keys": repr(keys), "keykind": kind}
                distinct = len(set(keys)) == len(keys)
                ok1, y = call(v.correct, keys)
                if not ok1:
                    ctx.fail("C13/PermutationVariable.correct/raises", f"{y!r}", SUITE, meta)
                    continue
                if distinct:
                    C.add({"op": "var.correct", "var": var, "x": raw_json(keys)}, render(ok1, y), {**meta, "op": "correct"})
                else:
                    ctx.case(("perm-ties", n, tuple(keys)), kind="perm-ties-relational")
                mem_checks.add({"op": "var.mem", "var": var, "c": coord_json(y)}, None,
                               {**meta, "op": "mem", "sig": "C13/PermutationVariable.correct/not-a-permutation", "y": repr(y)})
                ok2, y2 = call(v.correct, y)
                if not (ok2 and list(y2) == list(y)):
                    ctx.fail("C13/PermutationVariable.correct/not-idempotent", f"correct(correct(k))={y2!r} != correct(k)={y!r}", SUITE, meta)
                if kind.startswith("member") and list(y) != [int(k) for k in keys]:
                    ctx.fail("C13/PermutationVariable.correct/member-changed", f"correct({keys!r})={y!r}", SUITE, meta)
                okd, d = call(v.decode, y)
                if not okd or sorted(map(repr, d)) != sorted(map(repr, items)) or any(d[k] is not labels[y[k]] and d[k] != labels[y[k]] for k in range(n)):
                    ctx.fail("C13/PermutationVariable.decode/inconsistent", f"decode({y!r})={d!r} items={items!r}", SUITE, meta)
            for _ in range(3):
                r = v.randomize()
                ctx.case(("perm-rand", n, tuple(r)), kind="randomize")
                if sorted(r) != list(range(n)):
                    ctx.fail("C13/PermutationVariable.randomize/out-of-domain", f"{r!r}", SUITE, {"n": n})

    # ---------------- the label encoder behind PermutationVariable.decode ----------------
    for pool in item_pools + [["x"], [1, 2.5, "1"], [(1, 2), (1, 3), "t"]]:
        for n in range(1, len(pool) + 1):
            items = pool[:n]
            try:
                enc = LabelEncoder().fit(items)
            except TypeError:
                continue                      # unorderable mix: rejected at fit, outside the quantifier (distinct hashable, sortable items)
            labels = list(enc.__unique_labels__)
            code = {repr(l): i for i, l in enumerate(items)}          # arbitrary injective coding of the labels for the model
            if len({repr(l) for l in labels}) != len(labels):
                continue
            lj = [code[repr(l)] for l in labels]
            exp_labels = sorted(set(items), key=lambda x: (isinstance(x, (int, float)), x))
            if [repr(x) for x in labels] != [repr(x) for x in exp_labels]:
                ctx.fail("C13/LabelEncoder.fit/labels-not-sorted-distinct", f"{labels!r}", SUITE, {"kind": "labels", "items": repr(items)})
            for _ in range(4):
                y = [rng.choice(items) for _ in range(rng.randrange(0, n + 2))]
                ok1, r = call(enc.transform, y)
                C.add({"op": "label.transform", "labels": lj, "y": [code[repr(x)] for x in y]}, [int(i) for i in r] if ok1 else {"err": type(r).__name__},
                      {"kind": "labels", "items": repr(items), "x": repr(y), "op": "transform"})
                idx = [rng.randrange(0, n + 2) for _ in range(rng.randrange(0, n + 2))]
                ok2, r2 = call(enc.inverse_transform, idx)
                C.add({"op": "label.inverse", "labels": lj, "y": idx}, [None if (isinstance(x, str) and x == "unknown" and "unknown" not in items) else code.get(repr(x), "not-a-label:" + repr(x)) for x in r2] if ok2 else {"err": type(r2).__name__},
                      {"kind": "labels", "items": repr(items), "x": repr(idx), "op": "inverse_transform"})
                if ok1:
                    back = enc.inverse_transform(r)
                    if [repr(b) for b in back] != [repr(x) for x in y]:
                        ctx.fail("C13/LabelEncoder/inverse_transform-of-transform-not-identity", f"{y!r} -> {r!r} -> {back!r}", SUITE, {"kind": "labels", "items": repr(items)})

    # ---------------- multi / binary: delegation to children ----------------
    for _ in range(n_decl // 2):
        k = rng.randrange(1, 5)
        bs = [gen.rand_bounds(rng) for _ in range(k)]
        lbs, ubs = [b[0] for b in bs], [b[1] for b in bs]
        for cls, kname in ((ContinuousMultiVariable, "contMulti"), (MultiObjectiveVariable, "multiObj")):
            v = cls(name="m", lower_bounds=lbs, upper_bounds=ubs)
            decl = {"k": kname, "lbs": [bits(b) for b in lbs], "ubs": [bits(b) for b in ubs]}
            xs = [rng.choice(gen.values_around(rng, lb, ub)) for lb, ub in bs]
            ok1, y = call(v.correct, xs)
            meta = {"kind": kname, "lbs": lbs, "ubs": ubs, "x": repr(xs), "op": "decl.correct"}
            C.add({"op": "decl.correct", "decl": decl, "x": [bits(x) for x in xs]}, [rcoord(c) for c in y] if ok1 else rerr(y), meta)
            C.add({"op": "decl.size", "decl": decl}, v.size(), {**meta, "op": "decl.size"})
            r = v.randomize()
            ctx.case((kname, "rand", tuple(r)), kind="randomize")
            if len(r) != k or not all(lb <= c <= ub for c, (lb, ub) in zip(r, bs)):
                ctx.fail(f"C13/{cls.__name__}.randomize/out-of-domain", f"{r!r}", SUITE, meta)
    for _ in range(n_decl // 2):
        k = rng.randrange(1, 5)
        ns = [rng.randrange(1, 6) for _ in range(k)]
        v = DiscreteMultiVariable(name="dm", choices=[list(range(100, 100 + n)) for n in ns])
        decl = {"k": "discMulti", "ns": ns}
        xs = [rng.choice([-1.0, 0.0, n - 1.0, float(n), rng.uniform(-1, n + 1), math.inf]) for n in ns]
        ok1, y = call(v.correct, xs)
        meta = {"kind": "discMulti", "ns": ns, "x": repr(xs), "op": "decl.correct"}
        C.add({"op": "decl.correct", "decl": decl, "x": [bits(x) for x in xs]}, [rcoord(c) for c in y] if ok1 else rerr(y), meta)
        C.add({"op": "decl.size", "decl": decl}, v.size(), {**meta, "op": "decl.size"})
        if ok1:
            d = v.decode(y)
            if [dd - 100 for dd in d] != list(y):
                ctx.fail("C13/DiscreteMultiVariable.decode/not-a-choice", f"{d!r}", SUITE, meta)
        r = v.randomize()
        ctx.case(("discMulti", "rand", tuple(int(c) for c in r)), kind="randomize")
        if len(r) != k or not all(0 <= c < n for c, n in zip(r, ns)):
            ctx.fail("C13/DiscreteMultiVariable.randomize/out-of-domain", f"{r!r}", SUITE, meta)
    for k in range(1, 6):
        v = BinaryVariable(name="b", n_vars=k)
        decl = {"k": "binary", "n": k}
        for _ in range(4):
            xs = [rng.choice([-1.0, 0.0, 0.4, 1.0, 1.7, 2.0, 9.0, -math.inf]) for _ in range(k)]
            ok1, y = call(v.correct, xs)
            meta = {"kind": "binary", "n": k, "x": repr(xs), "op": "decl.correct"}
            C.add({"op": "decl.correct", "decl": decl, "x": [bits(x) for x in xs]}, [rcoord(c) for c in y] if ok1 else rerr(y), meta)
            if ok1 and (v.decode(y) != list(y) or not all(c in (0, 1) for c in y)):
                ctx.fail("C13/BinaryVariable.decode/not-a-choice", f"{y!r}", SUITE, meta)
        r = v.randomize()
        ctx.case(("binary", "rand", tuple(int(c) for c in r)), kind="randomize")
        if len(r) != k or not all(c in (0, 1) for c in r):
            ctx.fail("C13/BinaryVariable.randomize/out-of-domain", f"{r!r}", SUITE, {"n": k})

    # ---------------- validators ----------------
    vcases = []
    for _ in range(n_decl):
        lb, ub = gen.rand_bounds(rng)
        vcases += [("cont", lb, ub), ("cont", ub, lb), ("cont", lb, lb)]
        k = rng.randrange(1, 4)
        bs = [gen.rand_bounds(rng) for _ in range(k)]
        lbs, ubs = [b[0] for b in bs], [b[1] for b in bs]
        j = rng.randrange(k)
        inv = list(ubs); inv[j] = lbs[j] - abs(lbs[j]) - 1.0
        eq = list(ubs); eq[j] = lbs[j]
        for kname in ("contMulti", "multiObj"):
            vcases += [(kname, lbs, ubs), (kname, lbs, inv), (kname, lbs, eq), (kname, lbs, ubs + [1.0]), (kname, lbs + [0.0], ubs)]
    for n in (-3, -1, 0, 1, 2, 5):
        vcases.append(("binary", n, None))
    for kname, a, b in vcases:
        if kname == "cont":
            decl = {"k": "cont", "lb": bits(a), "ub": bits(b)}
            f = lambda: ContinuousVariable(name="x", lower_bound=a, upper_bound=b)
            expect_valid = a < b
        elif kname in ("contMulti", "multiObj"):
            decl = {"k": kname, "lbs": [bits(x) for x in a], "ubs": [bits(x) for x in b]}
            cls = ContinuousMultiVariable if kname == "contMulti" else MultiObjectiveVariable
            f = lambda: cls(name="m", lower_bounds=a, upper_bounds=b)
            expect_valid = len(a) == len(b) and all(x < y for x, y in zip(a, b))
        else:
            decl = {"k": "binary", "n": a}
            f = lambda: BinaryVariable(name="b", n_vars=a)
            expect_valid = a > 0
        ok1, r = call(f)
        meta = {"kind": kname, "a": repr(a), "b": repr(b), "op": "decl.valid"}
        C.add({"op": "decl.valid", "decl": decl}, bool(ok1), meta)
        if ok1 != expect_valid:
            ctx.fail(f"C13/{kname}/validator", f"constructed={ok1} but definition valid={expect_valid}: {a!r} {b!r}", SUITE, meta)
        elif not ok1 and not isinstance(r, (ValidationError, ValueError)):
            ctx.fail(f"C13/{kname}/validator-wrong-exception", f"{type(r).__name__}", SUITE, meta)

    # ---------------- ask the model ----------------
    for req, impl, model, meta in C.flush():
        ctx.case((req["op"], meta.get("kind"), meta.get("x"), meta.get("xtype"), meta.get("lb"), meta.get("ub"), meta.get("n"), meta.get("keys"), meta.get("a"), meta.get("b")),
                 kind=f"{meta.get('kind')}:{meta['op']}:{meta.get('xtype', '')}")
        if model != impl:
            ctx.disagree(SUITE, meta, model, impl)
        ctx.sample({"request": {k: v for k, v in meta.items()}, "implementation": impl, "model": model}, limit=6)
    for req, _, model, meta in mem_checks.flush():
        ctx.case(("mem", meta.get("kind"), meta.get("x"), meta.get("keys"), meta.get("xtype"), meta.get("lb"), meta.get("ub"), meta.get("n")), kind=f"{meta.get('kind')}:mem")
        if model is not True:
            ctx.fail(meta["sig"], f"correct({meta.get('x', meta.get('keys'))}) = {meta['y']} is not a member of the domain ({meta})", SUITE, meta)


def replay(case):
    """re-run one recorded failing case against the implementation; exit 1 if it still fails."""
    import json
    c = case.get("case", {})
    print(json.dumps(case, indent=1, default=str))
    kind = c.get("kind")
    if kind == "cont":
        v = ContinuousVariable(name="x", lower_bound=c["lb"], upper_bound=c["ub"])
        x = eval(c["x"], {"np": np, "nan": math.nan, "inf": math.inf})
        y = v.correct(x)
        ok = (c["lb"] <= y <= c["ub"]) and v.correct(y) == y
        print("correct ->", repr(y), "member+idempotent:", ok)
        return 0 if ok else 1
    if kind == "perm":
        v = PermutationVariable(name="p", items=eval(c["items"]))
        keys = eval(c["keys"], {"inf": math.inf, "nan": math.nan})
        y = v.correct(keys)
        ok = list(v.correct(y)) == list(y)
        print("correct ->", y, "correct∘correct ->", v.correct(y), "idempotent:", ok)
        return 0 if ok else 1
    print("replay for this case kind is by re-running the check")
    return 1
