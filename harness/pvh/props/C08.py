"""C08 — a run does not depend on the optimizer instance's history (S-rel: used instance vs fresh, call histories of length 0..2)."""
from __future__ import annotations
from .. import trace, jobs, rel, optimizers, oracles
from ..par import pmap
from .C07 import first_diff

ASSUMPTIONS = [
    "every call passes its mode explicitly (`_mode/_workers` are sticky when None is passed; the property does not quantify over modes)",
    "step-local scratch fields (written before they are read in every step) are treated as locals by the translator's flow-sensitive pass",
    "C07 (seeding) holds, so a used and a fresh instance can be compared run for run",
]
MODULES = ["PvModel.Props.C08", "PvModel.Props.T08", "PvModel.Props.T04", "PvModel.Props.R00"]


def run(ctx):
    ctx.prove(MODULES)
    ctx.suites_run.append("S-rel")
    rng = ctx.rng
    n = 3 if not ctx.thorough else 12
    ctx.rule("all exported optimizers × histories of 1..2 earlier optimize() calls on the same instance (same task / other task of another dimension / other objective and direction; "
             "earlier runs ended by max_cycles, by fitness_error, by early stopping, or by an exception raised by the objective after k evaluations; long first runs with tiny bounds for slowly decaying adaptive state; one pair of 14–26-cycle runs per class for schedules that only move late) "
             "then the final seeded call compared bit-for-bit with the same call on a freshly constructed instance; a case = one (history, final call); non-trivial = final run has ≥ 2 generations")
    js = []
    for name in optimizers.names():
        for _ in range(n):
            kind = rng.choice(["cont-sym", "cont", "cont-zero", "cont-tiny"])
            stop = rng.choice(["budget", "budget", "fitness_error", "early_stopping"])
            cfg = {"max_cycles": rng.choice([2, 3, 4, 6]), "fitness_error": None}
            if stop == "fitness_error":
                cfg["fitness_error"] = rng.choice([0.5, 5.0, 1e6])
            if stop == "early_stopping":
                cfg["early_stopping"] = {"patience": 1, "min_delta": 1e9}
            job = {"name": name, "kind": kind, "specs": trace.task_specs(rng, kind, rng.choice([2, 3, 4])), "objective": rng.choice(["sphere", "rastrigin", "linear"]),
                   "minmax": rng.choice(["min", "max"]), "seed": rng.randrange(1, 10 ** 6), "cfg": cfg, "mode": "serial", "stop": stop}
            hist = []
            for _ in range(rng.choice([1, 1, 2])):
                which = rng.choice(["same", "other-dim", "other-objective", "raises"])
                h = {"seed": rng.randrange(1, 10 ** 6)}
                if which == "other-dim":
                    h["specs"] = trace.task_specs(rng, rng.choice(["cont-sym", "cont-tiny"]), rng.choice([1, 5, 6]))
                elif which == "other-objective":
                    h["objective"], h["minmax"] = rng.choice(["neg", "linear"]), rng.choice(["min", "max"])
                elif which == "raises":
                    h["raise_after"] = rng.choice([0, 3, 25, 60])
                h["which"] = which
                hist.append(h)
            job["history"] = hist
            js.append(job)
    # schedules that only start to move late in a run (shrinking zones, decaying step sizes, stagnation counters): one longer pair per class
    for name in optimizers.names():
        kind = rng.choice(["cont-sym", "cont"])
        js.append({"name": name, "kind": kind, "specs": trace.task_specs(rng, kind, 3), "objective": rng.choice(["sphere", "rastrigin"]), "minmax": rng.choice(["min", "max"]),
                   "seed": rng.randrange(1, 10 ** 6), "cfg": {"max_cycles": rng.choice([14, 20, 26]), "fitness_error": None}, "mode": "serial", "stop": "budget-long",
                   "history": [{"seed": rng.randrange(1, 10 ** 6), "which": "same"}]})
    # the same Task OBJECT optimized twice by one instance (what `optimize(task); optimize(task)` is): anything cached per task object must not carry a run's wear
    for name in optimizers.names():
        kind = rng.choice(["cont-sym", "cont"])
        js.append({"name": name, "kind": kind, "specs": trace.task_specs(rng, kind, 3), "objective": rng.choice(["sphere", "rastrigin"]), "minmax": rng.choice(["min", "max"]),
                   "seed": rng.randrange(1, 10 ** 6), "cfg": {"max_cycles": rng.choice([6, 10]), "fitness_error": None}, "mode": "serial", "stop": "budget",
                   "history": [{"which": "same-object"}] * rng.choice([1, 2])})
    for j in jobs.param_sweep_jobs(rng, optimizers.names(), kinds=("cont-sym", "cont-tiny"), max_cycles=3):
        if rng.random() < 0.35:
            j["history"] = [{"seed": rng.randrange(1, 10 ** 6), "which": "same"}]
            j["stop"] = "budget"
            js.append(j)
    res = pmap(rel.run_c08, js)
    for j, r in zip(js, res):
        if "setup_error" in r:
            ctx.case(repr(j), nontrivial=False, kind="setup-error")
            continue
        ok = "evolution" in r["fresh"]
        ctx.case(repr({k: v for k, v in j.items()}), nontrivial=ok and len(r["fresh"]["evolution"]) >= 2,
                 kind=f"hist={'+'.join(h['which'] for h in j['history'])}:{j['stop']}:{'ok' if ok else 'raised'}")
        if r["used"] != r["fresh"]:
            ctx.fail(f"C08/{j['name']}/used-instance-differs-from-fresh", f"after history {[h['which'] for h in j['history']]} ({r['history_outcomes']}): {first_diff(r['used'], r['fresh'])}",
                     "S-rel", {"job": j})
    ctx.sample({"job": {k: v for k, v in js[0].items()}, "history_outcomes": res[0].get("history_outcomes"), "equal": res[0].get("used") == res[0].get("fresh")})


def replay(case):
    import json
    j = case["case"]["job"]
    r = rel.run_c08(j)
    eq = r.get("used") == r.get("fresh")
    print(json.dumps({"job": j, "history_outcomes": r.get("history_outcomes"), "equal": eq}, indent=1, default=str))
    return 0 if eq else 1
