"""C19 — HyperTuner evaluates the whole parameter grid and selects the best (S-grid, S-tuner)."""
from __future__ import annotations
import itertools
import json
import math
import os
import shutil
from collections import Counter
from contextlib import contextmanager
from fractions import Fraction
from pathlib import Path

import numpy as np

from pyvolutionary import HyperTuner, OptimizationResult, Task, ContinuousVariable
from pyvolutionary.abstract import OptimizationAbstract
from pyvolutionary.enums import TaskType
from pyvolutionary.hypertuner import ParameterGrid
from pyvolutionary.models import Agent

from ..canon import bits, rerr
from ..lean import run_driver_parallel, WORK

S_GRID = "S-grid"
S_TUNER = "S-tuner"
ASSUMPTIONS = [
    "ParameterGrid indices are natural numbers (the sequence positions 0..len-1 and beyond); negative indices are compared with the model "
    "(the code wraps them modulo the FIRST sub-grid's size) but are outside the property's 'indexing in agreement with iteration'",
    "keys of one dict are distinct strings; value sequences are non-empty (the constructor rejects empty ones with ValueError, checked)",
    "grids given to the tuner have pairwise distinct points (duplicates across sub-grids would make 'exactly once' ambiguous)",
    "trial costs are finite doubles; with n_trials >= 2 trial_std is finite, with n_trials = 1 it is NaN for every row",
    "trial_std is taken as observed (pandas' float computation); only its rank enters the selection, and the theorem holds for any std column",
    "trial_mean: the model uses the exact rational mean; generated costs are multiples of 1/4 below 2**20 so that the order of the float means is the order of the exact means",
    "n_trials = 1: pandas' dense rank of (rank_mean, nan) tuples depends on sort stability (probed: first row of optimal mean for ascending ranks); "
    "the reported row is compared relationally (its mean equals the model's optimal mean), never literally",
    "the optimizer is scripted (its optimize() returns a prescribed cost for the configuration it was last given); what a real optimizer does with the parameters is not part of C19",
    "enumerated score tables run through the real HyperTuner.execute with concurrent.futures.ProcessPoolExecutor replaced by an in-process executor; "
    "real process pools are used for the visit checks",
]


# ----------------------------------------------------------------------------------------------------------------------
# canonical forms
# ----------------------------------------------------------------------------------------------------------------------
def canon(params) -> str:
    """canonical text of a parameter dict (order-insensitive, as dict equality is)."""
    return repr(sorted((str(k), repr(v)) for k, v in dict(params).items()))


def items_repr(d) -> list:
    """a dict as the list of its items in insertion order, values by repr (how the model's association list is compared)."""
    return [[str(k), repr(v)] for k, v in d.items()]


def call(f, *a):
    try:
        return True, f(*a)
    except Exception as e:  # noqa
        return False, e


def own_points(subgrids) -> list[dict]:
    """the harness's own reading of 'union of the Cartesian products of the sub-grids' (no itertools, no sorting)."""
    out = []
    for sg in subgrids:
        pts = [{}]
        for k, vs in sg.items():
            pts = [{**p, k: v} for p in pts for v in list(vs)]
        out.extend(pts)
    return out


# ----------------------------------------------------------------------------------------------------------------------
# S-grid
# ----------------------------------------------------------------------------------------------------------------------
KEYSETS = [["a", "b", "c"], ["b", "A", "ab"], ["k10", "k2", "k1"]]
VALPOOLS = [[1, 2, 3], ["x", "y", "z"], [0.5, None, True], [(1, 2), "1", 1]]


def make_subgrid(rng, sizes, order, keyset, container=0):
    """a dict with len(sizes) keys inserted in `order`; key j has sizes[j] values."""
    d = {}
    for j in order:
        pool = VALPOOLS[(j + container) % len(VALPOOLS)]
        vals = pool[:sizes[j]]
        if container == 1:
            vals = tuple(vals)
        elif container == 2 and all(isinstance(v, int) and not isinstance(v, bool) for v in vals):
            vals = np.array(vals)
        d[keyset[j]] = vals
    return d


def grid_request(subgrids, lo, hi):
    """wire form: values are replaced by ids (the model passes values through untouched)."""
    idval = {}
    wire = []
    for sg in subgrids:
        w = []
        for k, vs in sg.items():
            ids = []
            for v in list(vs):
                idval[len(idval)] = v
                ids.append(len(idval) - 1)
            w.append([k, ids])
        wire.append(w)
    return {"op": "grid.all", "grid": wire, "lo": lo, "hi": hi}, idval


def model_point(pt, idval):
    return [[k, repr(idval[i])] for k, i in pt]


def gen_grids(ctx):
    rng = ctx.rng
    shapes = [(nk, sizes) for nk in (1, 2, 3) for sizes in itertools.product((1, 2, 3), repeat=nk)]
    grids = []   # (kind, param_grid as given to the constructor)
    for nk, sizes in shapes:
        for order in itertools.permutations(range(nk)):
            for ks, keyset in enumerate(KEYSETS):
                grids.append(("dict", make_subgrid(rng, sizes, order, keyset, container=(ks + sum(sizes)) % 3)))
    grids.append(("dict", {}))
    pool = [{}] + [make_subgrid(rng, sizes, rng.sample(range(nk), nk), rng.choice(KEYSETS), container=rng.randrange(3)) for nk, sizes in shapes]
    for a in pool:
        grids.append(("list1", [a]))
    for a in pool:
        for b in pool:
            grids.append(("list2", [a, b]))
    for _ in range(100 if not ctx.thorough else 3000):
        grids.append(("list3+", [rng.choice(pool) for _ in range(rng.randrange(3, 5))]))
    return grids


def run_grid_suite(ctx):
    ctx.suites_run.append(S_GRID)
    ctx.rule("S-grid: every dict with 1..3 keys x 1..3 values in every key insertion order over three key alphabets (incl. upper case and "
             "'k10'<'k2' string order), values as list/tuple/ndarray of ints, strings, floats, None, bool, tuples; the empty dict; every list of 1 dict and of 2 dicts "
             "over the 40 shapes (exhaustive), random lists of 3..4 dicts; list(grid), len(grid), grid[i] for i in -(len+2)..len+2; "
             "non-trivial = every grid (distinct by content); invalid grids (an empty value list) checked for ValueError")
    grids = gen_grids(ctx)
    reqs, metas = [], []
    for kind, pg in grids:
        subgrids = [pg] if isinstance(pg, dict) else list(pg)
        meta = {"kind": kind, "grid": repr(pg)}
        ok, g = call(ParameterGrid, pg)
        if not ok:
            ctx.fail(f"C19/ParameterGrid/valid-grid-rejected-{type(g).__name__}", f"{g!r}", S_GRID, meta)
            continue
        okl, pts = call(lambda: list(g))
        okn, n = call(len, g)
        if not okl or not okn:
            ctx.fail("C19/ParameterGrid/iteration-or-len-raises", f"{pts!r} {n!r}", S_GRID, meta)
            continue
        L = len(pts)
        lo, hi = -(L + 2), L + 2
        got = []
        for i in range(lo, hi + 1):
            oki, p = call(g.__getitem__, i)
            got.append(items_repr(p) if oki else rerr(p))
        impl = {"valid": True, "iter": [items_repr(p) for p in pts], "len": int(n), "getitem": got}
        req, idval = grid_request(subgrids, lo, hi)
        reqs.append(req)
        metas.append((meta, impl, idval, lo))
        # ---- oracle: the property itself
        exp = own_points(subgrids)
        if Counter(canon(p) for p in pts) != Counter(canon(p) for p in exp):
            ctx.fail("C19/ParameterGrid.__iter__/not-union-of-cartesian-products", f"list(grid) = {pts!r}, expected the points {exp!r}", S_GRID, meta)
        if n != L:
            ctx.fail("C19/ParameterGrid.__len__/disagrees-with-iteration", f"len = {n}, iteration yields {L}", S_GRID, meta)
        for i in range(0, L + 3):
            oki, p = call(g.__getitem__, i)
            if i < L:
                if not oki or canon(p) != canon(pts[i]):
                    ctx.fail("C19/ParameterGrid.__getitem__/disagrees-with-iteration", f"grid[{i}] = {p!r}, list(grid)[{i}] = {pts[i]!r}", S_GRID, {**meta, "i": i})
                    break
            elif oki or not isinstance(p, IndexError):
                ctx.fail("C19/ParameterGrid.__getitem__/no-IndexError-beyond-end", f"grid[{i}] = {p!r} with len {L}", S_GRID, {**meta, "i": i})
                break
    # invalid grids: an empty value sequence anywhere
    inv = [{"a": []}, {"a": [1], "b": []}, [{"a": [1]}, {"b": ()}], [{}, {"a": np.array([])}]]
    for pg in inv:
        ok, g = call(ParameterGrid, pg)
        subgrids = [pg] if isinstance(pg, dict) else list(pg)
        req, idval = grid_request(subgrids, 0, 0)
        reqs.append({"op": "grid.valid", "grid": req["grid"]})
        metas.append(({"kind": "invalid", "grid": repr(pg)}, True if ok else rerr(g), None, 0))
    ans = run_driver_parallel(reqs)
    for (meta, impl, idval, lo), model in zip(metas, ans):
        ctx.case((S_GRID, meta["grid"]), kind=f"grid:{meta['kind']}")
        if idval is not None:
            model = {"valid": model["valid"], "len": model["len"], "iter": [model_point(p, idval) for p in model["iter"]],
                     "getitem": [x if isinstance(x, dict) else model_point(x, idval) for x in model["getitem"]]}
        if model != impl:
            ctx.disagree(S_GRID, meta, model, impl)
        ctx.sample({"suite": S_GRID, "case": meta, "implementation": impl if idval is None else {"len": impl["len"], "iter": impl["iter"][:4]}}, limit=3)


# ----------------------------------------------------------------------------------------------------------------------
# S-tuner: the scripted optimizer
# ----------------------------------------------------------------------------------------------------------------------
class C19Task(Task):
    def objective_function(self, x):
        return 0.0


def make_task(direction: str) -> Task:
    return C19Task(variables=[ContinuousVariable(name="x", lower_bound=0.0, upper_bound=1.0)], minmax=direction)


class ScriptedOptimizer(OptimizationAbstract):
    """`optimize()` reports the prescribed best cost of the configuration it was last given: cost = table[point][k], k = the number of
    runs already made with this configuration (claimed through exclusive file creation when runs happen in other processes).
    `rates` carries (point id, k) back to the parent, so every cell of the tuner's tables identifies the parameters that produced it."""

    def __init__(self, points, table, workdir=None):
        super().__init__()
        self.points = [canon(p) for p in points]
        self.table = table
        self.workdir = workdir
        self.params = None
        self.events = []
        self.counter = Counter()

    def optimization_step(self):
        pass

    def set_config_parameters(self, parameters):
        self.params = parameters
        self.events.append(("set", canon(parameters)))

    def _claim(self, pid):
        if self.workdir is None:
            k = self.counter[pid]
            self.counter[pid] += 1
            return k
        k = 0
        while True:
            try:
                fd = os.open(os.path.join(self.workdir, f"{pid}_{k}"), os.O_CREAT | os.O_EXCL | os.O_WRONLY)
                os.close(fd)
                return k
            except FileExistsError:
                k += 1

    def optimize(self, task, mode=None, workers=None):
        if self.params is None:
            raise ValueError("Invalid configuration")
        key = canon(self.params)
        pid = self.points.index(key) if key in self.points else -1
        k = self._claim(pid)
        row = self.table[pid] if pid >= 0 else [0.0]
        cost = float(row[k] if k < len(row) else row[-1])
        self.events.append(("opt", key, k))
        internal = cost if task.minmax == TaskType.MIN else -cost      # as the real optimize(): costs are negated inside for max tasks
        return OptimizationResult(evolution=[], rates=[float(pid), float(k)],
                                  best_solution=Agent(position=[float(pid)], cost=internal, fitness=0.0), task_type=task.minmax)


class _InlineExecutor:
    def __init__(self, *a, **k):
        pass

    def __enter__(self):
        return self

    def __exit__(self, *a):
        return False

    def map(self, fn, it):
        return [fn(x) for x in it]


class _InlineFutures:
    ProcessPoolExecutor = _InlineExecutor


@contextmanager
def inline_pool():
    """replace the `concurrent.futures` module object the tuner uses by an in-process stand-in (the code under test is untouched)."""
    import pyvolutionary.hypertuner as ht
    old = getattr(ht, "parallel", None)
    if old is not None:
        ht.parallel = _InlineFutures
    try:
        yield
    finally:
        if old is not None:
            ht.parallel = old


_RUN_NO = [0]


def run_tuner(direction, grid, table, n_trials, inline=True, do_resolve=True, warm=False):
    """drive the real HyperTuner.execute (and resolve) with a scripted optimizer; returns everything observable."""
    subgrids = [grid] if isinstance(grid, dict) else list(grid)
    points = own_points(subgrids)
    workdir = None
    if not inline:
        _RUN_NO[0] += 1
        workdir = str(WORK / f"C19_{os.getpid()}_{_RUN_NO[0]}")
        shutil.rmtree(workdir, ignore_errors=True)
        os.makedirs(workdir)
    # the tuner lists the grid itself; the scripted optimizer is keyed by the points' content, so the order does not matter here
    opt = ScriptedOptimizer(points, table, workdir)
    tuner = HyperTuner(opt, grid)
    task = make_task(direction)
    out = {"points": [canon(p) for p in points], "n": n_trials, "dir": direction}
    if warm and inline:
        # the tuner has already tuned this optimizer once (other direction, one trial): what it reports now is about THIS execute only
        try:
            with inline_pool():
                tuner.execute(task=make_task("max" if direction == "min" else "min"), n_trials=1)
        except Exception:  # noqa
            pass
        opt.events = []
        opt.counter = Counter()       # the scripted optimizer's own trial counters belong to the harness, not to the tuner
    try:
        if inline:
            with inline_pool():
                tuner.execute(task=task, n_trials=n_trials)
        else:
            tuner.execute(task=task, n_trials=n_trials)
    except Exception as e:  # noqa
        out["raised"] = f"{type(e).__name__}: {e}"
        if workdir:
            shutil.rmtree(workdir, ignore_errors=True)
        return out
    df = tuner._df_fit
    cols = [f"trial_{i}" for i in range(1, n_trials + 1)]
    out["rows"] = [canon(p) for p in df["params"]]
    out["cells"] = [[float(x) for x in r] for r in df[cols].values.tolist()]
    out["mean"] = [float(x) for x in df["trial_mean"]]
    out["std"] = [float(x) for x in df["trial_std"]]
    out["rank_mean"] = [float(x) for x in df["rank_mean"]]
    out["rank_std"] = [float(x) for x in df["rank_std"]]
    out["dense"] = [float(x) for x in df["rank_mean_std"]]
    out["best_params"] = None if tuner.best_parameters is None else canon(tuner.best_parameters)
    out["best_score"] = float(tuner.best_score)
    dl = tuner._df_loss
    out["loss"] = [[int(r.loc["trial"]), int(r.loc[1]), int(r.loc[2])] for _, r in dl.iterrows()]   # (trial idx, worker's point id, worker's k)
    out["sets"] = [e[1] for e in opt.events if e[0] == "set"]
    if workdir:
        out["claims"] = sorted(os.listdir(workdir))
        shutil.rmtree(workdir, ignore_errors=True)
        opt.workdir = None          # resolve() runs in this process
    else:
        out["claims"] = sorted(f"{opt.points.index(e[1]) if e[1] in opt.points else -1}_{e[2]}" for e in opt.events if e[0] == "opt")
    if do_resolve:
        n0 = len(opt.events)
        ok, res = call(tuner.resolve)
        out["resolve_events"] = [list(e) for e in opt.events[n0:]]
        out["resolve_ok"] = bool(ok and isinstance(res, OptimizationResult))
        if not ok:
            out["resolve_raised"] = f"{type(res).__name__}: {res}"
    return out


def oracle(ctx, o, table, meta):
    """the property on one observed run. `table[i]` = prescribed costs of own_points(grid)[i]."""
    n = o["n"]
    direction = o["dir"]
    if "raised" in o:
        ctx.fail("C19/HyperTuner.execute/raises", o["raised"], S_TUNER, meta)
        return None
    pts = o["points"]
    # every grid point is a row, once
    if Counter(o["rows"]) != Counter(pts):
        ctx.fail("C19/HyperTuner.execute/grid-point-missing-or-repeated", f"rows {o['rows']} for points {pts}", S_TUNER, meta)
        return None
    # visits: each point configured n times-run, with its own parameters
    claims = Counter(c.rsplit("_", 1)[0] for c in o["claims"])
    if any(claims.get(str(i), 0) != n for i in range(len(pts))) or set(claims) - {str(i) for i in range(len(pts))}:
        ctx.fail("C19/HyperTuner.execute/point-not-run-once-per-trial", f"runs per point id {dict(claims)}, expected {n} each of {len(pts)} points", S_TUNER, meta)
        return None
    row_pid = [pts.index(r) for r in o["rows"]]
    for r, pid in enumerate(row_pid):
        chunk = o["loss"][r * n:(r + 1) * n]
        if sorted(t for t, _, _ in chunk) != list(range(n)) or any(wp != pid for _, wp, _ in chunk):
            ctx.fail("C19/HyperTuner.execute/trial-ran-with-other-parameters",
                     f"row {r} (point {pid}) collected (trial, point run, k) = {chunk}", S_TUNER, meta)
            return None
        want = sorted(float(x) for x in table[pid][:n])
        if sorted(o["cells"][r]) != want:
            ctx.fail("C19/HyperTuner.execute/cell-not-the-cost-of-own-point", f"row {r}: {o['cells'][r]} expected {want}", S_TUNER, meta)
            return None
    # selection
    if o["best_params"] not in pts:
        ctx.fail("C19/HyperTuner.execute/best-parameters-not-a-grid-point", f"{o['best_params']}", S_TUNER, meta)
        return None
    means = [Fraction(sum(Fraction(x) for x in table[pid][:n]), n) for pid in range(len(pts))]
    bi = pts.index(o["best_params"])
    best, worst = (min(means), max(means)) if direction == "min" else (max(means), min(means))
    if means[bi] != best:
        if direction == "max":
            sig = "C19/HyperTuner.execute/max-task-picks-worst" if means[bi] == worst else "C19/HyperTuner.execute/max-task-not-highest-mean"
        else:
            sig = "C19/HyperTuner.execute/min-task-not-lowest-mean"
        ctx.fail(sig, f"{direction} task, means per grid point {[str(m) for m in means]}: best_parameters = point {bi} (mean {means[bi]}), optimal mean {best}",
                 S_TUNER, meta)
    elif not math.isclose(o["best_score"], float(means[bi]), rel_tol=1e-12, abs_tol=1e-12):
        ctx.fail("C19/HyperTuner.execute/best-score-not-the-mean", f"best_score {o['best_score']} but mean of best_parameters is {means[bi]}", S_TUNER, meta)
    if "resolve_events" in o:
        ev = o["resolve_events"]
        if not o["resolve_ok"] or len(ev) != 2 or ev[0][0] != "set" or ev[0][1] != o["best_params"] or ev[1][0] != "opt" or ev[1][1] != o["best_params"]:
            ctx.fail("C19/HyperTuner.resolve/not-run-with-best-parameters", f"events {ev}, best_parameters {o['best_params']}, {o.get('resolve_raised', '')}", S_TUNER, meta)
    return bi


def half(x):
    """a pandas rank as the model's doubled natural (None for NaN)."""
    return None if math.isnan(x) else int(round(2 * x))


def compare_model(ctx, o, table, meta, sel, exe=None):
    """correspondence: the observed columns of _df_fit against the model's `tuner.select` (rows in the tuner's order)."""
    n = o["n"]
    pts = o["points"]
    impl = {"rank_mean2": [half(x) for x in o["rank_mean"]], "rank_std2": [half(x) for x in o["rank_std"]]}
    model = {"rank_mean2": sel["rank_mean2"], "rank_std2": sel["rank_std2"]}
    bi = o["rows"].index(o["best_params"]) if o["best_params"] in o["rows"] else None
    if n >= 2:
        impl["dense"] = [int(x) for x in o["dense"]]
        model["dense"] = sel["dense"]
        impl["best"] = bi
        model["best"] = sel["best"]
    else:
        # NaN spreads: relational — the reported row has the mean of the model's reported row
        impl["best_mean"] = None if bi is None else sel["means"][bi]
        model["best_mean"] = None if sel["best"] is None else sel["means"][sel["best"]]
    impl["means_exact"] = [f"{m.numerator}/{m.denominator}" for m in (Fraction(sum(Fraction(x) for x in r), n) for r in o["cells"])]
    model["means_exact"] = sel["means"]
    if exe is not None:
        # the event log: parent's set_config_parameters calls, then per row the trials with the point the worker was configured with
        log = []
        for r, key in enumerate(o["rows"]):
            log.append(["set", r if (r < len(o["sets"]) and o["sets"][r] == key) else None])
            for t, wp, _ in sorted(o["loss"][r * n:(r + 1) * n]):
                log.append(["run", o["rows"].index(pts[wp]) if 0 <= wp < len(pts) and pts[wp] in o["rows"] else None, t])
        impl["log"] = log
        model["log"] = exe.get("log")
        if "resolve_events" in o:
            impl["resolve"] = [[{"opt": "run"}.get(e[0], e[0]), o["rows"].index(e[1]) if e[1] in o["rows"] else None] for e in o["resolve_events"]]
            model["resolve"] = [[e[0], e[1]] for e in exe.get("resolve", [])] if n >= 2 else impl["resolve"]
    if model != impl:
        ctx.disagree(S_TUNER, meta, model, impl)


def select_request(o):
    return {"op": "tuner.select", "dir": o["dir"], "scores": [[bits(x) for x in r] for r in o["cells"]], "stds": [bits(x) for x in o["std"]]}


def execute_request(o):
    return {"op": "tuner.execute", "n": o["n"], "dir": o["dir"], "scores": [[bits(x) for x in r] for r in o["cells"]], "stds": [bits(x) for x in o["std"]]}


def _inline_job(job):
    direction, rows, n = job
    grid = {"p": list(range(len(rows)))}
    # one case in six: the same HyperTuner object has already executed once
    import zlib
    warm = (zlib.crc32(repr((direction, rows, n)).encode()) % 6) == 0
    return run_tuner(direction, grid, rows, n, inline=True, do_resolve=True, warm=warm)


def enum_tables(ctx):
    """score tables over a 3-value alphabet: ties in the mean, equal means with different spreads, n_trials 1..3; plus 10..12 trials with the decisive costs in trials 10+."""
    rng = ctx.rng
    A = (0.0, 1.0, 2.0)
    shapes = [(1, 1), (1, 2), (2, 1), (2, 2), (3, 1), (1, 3), (4, 1), (2, 3), (3, 2)]
    if ctx.thorough:
        shapes += [(3, 3), (4, 2)]
    jobs = []
    for r, n in shapes:
        cells = list(itertools.product(A, repeat=r * n))
        if len(cells) > 800 and not ctx.thorough:
            cells = rng.sample(cells, 800)
        for c in cells:
            rows = [list(c[i * n:(i + 1) * n]) for i in range(r)]
            for d in ("min", "max"):
                jobs.append((d, rows, n))
    # many trials (two-digit trial numbers: column names, their order, anything keyed by the trial's name) with the decisive costs in the LATE trials
    for r, n in ((2, 10), (3, 11), (2, 12)) + (((3, 25), (2, 101)) if ctx.thorough else ()):
        for _ in range(30 if not ctx.thorough else 150):
            rows = [[1.0] * n for _ in range(r)]
            for row in rows:
                for t in rng.sample(range(9, n), rng.randrange(1, n - 8)):
                    row[t] = rng.choice([-8.0, -1.0, 0.0, 3.0, 40.0])
            jobs.append((rng.choice(("min", "max")), rows, n))
    extra = [(3, 3, 400), (4, 2, 400), (4, 3, 300)] if not ctx.thorough else [(4, 3, 20000), (5, 2, 5000), (5, 1, 243), (6, 3, 5000)]
    vals = [x / 4 for x in range(-8, 9)] + [1000.25, -1000.5, 2.0 ** 19]
    for r, n, cnt in extra:
        for _ in range(cnt):
            alpha = A if rng.random() < 0.6 else rng.sample(vals, 4)
            rows = [[rng.choice(alpha) for _ in range(n)] for _ in range(r)]
            jobs.append((rng.choice(("min", "max")), rows, n))
    return jobs


def pool_cases(ctx):
    """cases run with REAL process pools: (direction, grid, table over own_points(grid), n_trials)."""
    rng = ctx.rng
    grids = [
        {"alpha": [0.1, 0.2]},
        {"b": [1, 2], "a": ["x"]},
        {"pop": [10, 20, 30]},
        [{"k": [1]}, {"m": ["u", "v"]}],
        [{}, {"z": [5, 6]}],
        {"b": [1, 2], "a": [True, None]},
        [{"a": [1, 2]}, {"b": [1, 2]}],                       # distinct points with equal VALUES under different parameter names
        [{"a": [1], "b": [2]}, {"c": [1], "d": [2]}, {"a": [1], "d": [2]}],
    ]
    if ctx.thorough:
        grids += [{"a": [1, 2, 3], "b": [1, 2]}, [{"a": [1, 2]}, {"b": [1, 2]}, {}], {"c": [1], "b": [2], "a": [3, 4]}]
    cases = []
    for gi, g in enumerate(grids):
        npts = len(own_points([g] if isinstance(g, dict) else g))
        for rep in range(2 if not ctx.thorough else 8):
            n = 1 + (gi + rep) % 3
            d = ("min", "max")[(gi + rep) % 2]
            style = rng.randrange(3)
            if style == 0:      # all means tie, spreads differ
                table = [[1.0 + (j - (n - 1) / 2) * i for j in range(n)] for i in range(npts)]
            elif style == 1:    # small alphabet: ties likely
                table = [[rng.choice((0.0, 1.0, 2.0)) for _ in range(n)] for _ in range(npts)]
            else:               # distinct means
                table = [[float(3 * i + rng.choice((0, 1))) for _ in range(n)] for i in rng.sample(range(npts), npts)]
            cases.append((d, g, table, n))
    # both directions on the two-row witness of the pinned defect
    cases.append(("max", {"p": [0, 1]}, [[1.0, 1.0], [2.0, 2.0]], 2))
    cases.append(("min", {"p": [0, 1]}, [[1.0, 1.0], [2.0, 2.0]], 2))
    return cases


def run_tuner_suite(ctx):
    ctx.suites_run.append(S_TUNER)
    ctx.rule("S-tuner: the real HyperTuner.execute/resolve around a scripted optimizer whose reported best cost is prescribed per (grid point, run) and whose rates carry "
             "(point id, run number) back through the process boundary; (a) real process pools: grids as dict / list of dicts / with an empty dict, 1..3 trials, min and max, "
             "tables with all means tied and different spreads, small-alphabet tables, distinct means; (b) in-process executor: every table over {0,1,2} for "
             "(rows, trials) in 1x1..3x2 / 2x3 (sampled to 800 per shape in the quick tier) for min and max, random 3..4-row tables over dyadic values, 2..3-row tables with 10..12 trials whose decisive costs sit in trials 10+; "
             "non-trivial = a table with at least two rows (one-row tables counted as trivial)")
    # ---------------- (b) enumerated tables through execute with the in-process executor
    jobs = enum_tables(ctx)
    import concurrent.futures as cf
    with cf.ProcessPoolExecutor(min(16, max(2, (os.cpu_count() or 4) - 1))) as ex:
        outs = list(ex.map(_inline_job, jobs, chunksize=64))
    reqs, keep = [], []
    for (d, rows, n), o in zip(jobs, outs):
        meta = {"mode": "inline", "dir": d, "n_trials": n, "table": rows, "grid": {"p": list(range(len(rows)))}}
        ctx.case((S_TUNER, d, n, repr(rows)), nontrivial=len(rows) > 1, kind=f"tuner:inline:{d}:n{n}")
        bi = oracle(ctx, o, rows, meta)
        if bi is None or "raised" in o or "rows" not in o:
            continue                          # a structural failure is already reported with this table as its failing input; its (possibly NaN) cells are not a model input
        reqs.append(select_request(o))
        keep.append((o, rows, meta))
    ans = run_driver_parallel(reqs)
    for (o, rows, meta), sel in zip(keep, ans):
        compare_model(ctx, o, rows, meta, sel)
    if keep:
        o, rows, meta = keep[len(keep) // 2]
        ctx.sample({"suite": S_TUNER, "case": meta, "implementation": {k: o[k] for k in ("mean", "std", "rank_mean", "rank_std", "dense", "best_params", "best_score")}}, limit=6)
    # ---------------- (a) real process pools
    cases = pool_cases(ctx)
    reqs, keep = [], []
    for d, g, table, n in cases:
        meta = {"mode": "process-pool", "dir": d, "n_trials": n, "table": table, "grid": repr(g)}
        o = run_tuner(d, g, table, n, inline=False, do_resolve=True)
        ctx.case((S_TUNER, "pool", d, n, repr(g), repr(table)), nontrivial=len(table) > 1, kind=f"tuner:pool:{d}:n{n}")
        if oracle(ctx, o, table, meta) is None or "raised" in o or "rows" not in o:
            continue
        reqs += [select_request(o), execute_request(o)]
        keep.append((o, table, meta))
        ctx.sample({"suite": S_TUNER, "case": meta, "implementation": {k: o[k] for k in ("rows", "cells", "best_params", "best_score", "claims", "resolve_events")}}, limit=8)
    ans = run_driver_parallel(reqs)
    for i, (o, table, meta) in enumerate(keep):
        compare_model(ctx, o, table, meta, ans[2 * i], ans[2 * i + 1])
    # ---------------- (c) a real optimizer end to end (costs are whatever it finds; the oracle reads them from the tuner's table)
    real_optimizer_cases(ctx)
    subgrid_real_cases(ctx)


class Sphere(Task):
    def objective_function(self, x):
        return float(np.sum(np.array(x) ** 2))


def real_optimizer_cases(ctx):
    from pyvolutionary import BiogeographyBasedOptimization, ContinuousMultiVariable
    for d in ("min", "max"):
        task = Sphere(variables=[ContinuousMultiVariable(name="x", lower_bounds=[-5.0] * 3, upper_bounds=[5.0] * 3)], minmax=d)
        grid = {"max_cycles": [2, 4], "population_size": [10], "n_elites": [3], "p_m": [0.05]}
        meta = {"mode": "real-optimizer", "dir": d, "grid": repr(grid), "n_trials": 2}
        tuner = HyperTuner(BiogeographyBasedOptimization(), grid)
        ok, e = call(lambda: tuner.execute(task=task, n_trials=2))
        ctx.case((S_TUNER, "real", d), kind=f"tuner:real:{d}")
        if not ok:
            ctx.fail("C19/HyperTuner.execute/raises", f"{type(e).__name__}: {e}", S_TUNER, meta)
            continue
        df = tuner._df_fit
        means = [(float(a) + float(b)) / 2 for a, b in zip(df["trial_1"], df["trial_2"])]
        pts = [canon(p) for p in own_points([grid])]
        bp = canon(tuner.best_parameters)
        meta["means"] = means
        if bp not in pts or [canon(p) for p in df["params"]] != pts:
            ctx.fail("C19/HyperTuner.execute/best-parameters-not-a-grid-point", f"{bp}", S_TUNER, meta)
            continue
        bi = pts.index(bp)
        best, worst = (min(means), max(means)) if d == "min" else (max(means), min(means))
        if not math.isclose(means[bi], best, rel_tol=1e-12):
            sig = ("C19/HyperTuner.execute/max-task-picks-worst" if means[bi] == worst else "C19/HyperTuner.execute/max-task-not-highest-mean") if d == "max" \
                else "C19/HyperTuner.execute/min-task-not-lowest-mean"
            ctx.fail(sig, f"{d} task with a real optimizer, means {means}, reported point {bi}", S_TUNER, meta)
        elif not math.isclose(float(tuner.best_score), means[bi], rel_tol=1e-12):
            ctx.fail("C19/HyperTuner.execute/best-score-not-the-mean", f"{tuner.best_score} vs {means[bi]}", S_TUNER, meta)
        ok, res = call(tuner.resolve)
        if not ok or not isinstance(res, OptimizationResult) or canon(tuner._algorithm.configuration.model_dump()) is None:
            ctx.fail("C19/HyperTuner.resolve/not-run-with-best-parameters", f"{res!r}", S_TUNER, meta)
        else:
            cfg = tuner._algorithm.configuration.model_dump()
            if any(cfg.get(k) != v for k, v in tuner.best_parameters.items()):
                ctx.fail("C19/HyperTuner.resolve/not-run-with-best-parameters", f"configuration after resolve {cfg}, best {tuner.best_parameters}", S_TUNER, meta)


def subgrid_real_cases(ctx):
    """a real optimizer (pydantic configuration) tuned over SUB-GRIDS WITH DIFFERENT KEY SETS: every evaluation must run under exactly
    `Config(**point)` — keys a point does not name take the configuration class's defaults, never what an earlier point left behind — and
    `resolve()` under `Config(**best_parameters)`."""
    from pyvolutionary import BiogeographyBasedOptimization, BiogeographyBasedOptimizationConfig, ContinuousMultiVariable
    from pyvolutionary.models import EarlyStopping
    seen = []

    class Recording(BiogeographyBasedOptimization):
        def optimize(self, task, mode=None, workers=None):
            seen.append(self._config.model_dump() if self._config is not None else None)
            return super().optimize(task, mode=mode, workers=workers)

    req = {"max_cycles": [2], "population_size": [10], "n_elites": [3], "p_m": [0.05]}
    for d, grids in (("min", [dict(req, fitness_error=[None, 0.5]), dict(req, max_cycles=[3, 4])]),
                     ("max", [dict(req, early_stopping=[EarlyStopping(patience=2, min_delta=0.5)]), dict(req, p_m=[0.1, 0.2]), dict(req, fitness_error=[0.9])])):
        task = Sphere(variables=[ContinuousMultiVariable(name="x", lower_bounds=[-5.0] * 2, upper_bounds=[5.0] * 2)], minmax=d)
        meta = {"mode": "real-optimizer-subgrids", "dir": d, "grid": repr(grids), "n_trials": 2}
        seen.clear()
        tuner = HyperTuner(Recording(), grids)
        import contextlib, io
        with inline_pool(), contextlib.redirect_stdout(io.StringIO()):
            ok, e = call(lambda: tuner.execute(task=task, n_trials=2))
        ctx.case((S_TUNER, "real-subgrids", d), kind=f"tuner:real-subgrids:{d}")
        if not ok:
            ctx.fail("C19/HyperTuner.execute/raises", f"{type(e).__name__}: {e}", S_TUNER, meta)
            continue
        pts = own_points(grids)
        want = [BiogeographyBasedOptimizationConfig(**p).model_dump() for p in pts for _ in range(2)]
        if seen != want:
            bad = next((i for i, (a, b) in enumerate(zip(seen, want)) if a != b), min(len(seen), len(want)))
            ctx.fail("C19/HyperTuner.execute/evaluation-not-run-under-its-own-grid-point", f"evaluation {bad} (point {pts[bad // 2] if bad // 2 < len(pts) else '?'}): ran under "
                     f"{seen[bad] if bad < len(seen) else None}, expected {want[bad] if bad < len(want) else None}; {len(seen)} evaluations for {len(pts)} points × 2 trials", S_TUNER, meta)
            continue
        seen.clear()
        with inline_pool(), contextlib.redirect_stdout(io.StringIO()):
            ok, res = call(tuner.resolve)
        if not ok or seen != [BiogeographyBasedOptimizationConfig(**tuner.best_parameters).model_dump()]:
            ctx.fail("C19/HyperTuner.resolve/not-run-with-best-parameters", f"resolve ran under {seen}, best parameters {tuner.best_parameters}", S_TUNER, meta)


def run(ctx):
    ctx.prove(["PvModel.Props.C19", "PvModel.Props.T19", "PvModel.Props.R19"])
    WORK.mkdir(exist_ok=True)
    run_grid_suite(ctx)
    run_tuner_suite(ctx)


def replay(case):
    print(json.dumps(case, indent=1, default=str))
    c = case["case"]
    sig = case["signature"]
    if "ParameterGrid" in sig:
        pg = eval(c["grid"], {"array": np.array, "np": np, "nan": math.nan})
        g = ParameterGrid(pg)
        pts = list(g)
        print("list(grid) =", pts, "len =", len(g))
        bad = len(g) != len(pts)
        for i in range(len(pts) + 2):
            ok, p = call(g.__getitem__, i)
            print(i, p if ok else type(p).__name__)
            bad |= (i < len(pts)) != ok or (ok and canon(p) != canon(pts[i]))
        bad |= Counter(canon(p) for p in pts) != Counter(canon(p) for p in own_points([pg] if isinstance(pg, dict) else pg))
        print("still fails" if bad else "holds now")
        return 1 if bad else 0
    if c.get("mode") == "real-optimizer":
        print("re-run ./check C19 (real-optimizer case)")
        return 1
    grid = c["grid"] if isinstance(c["grid"], (dict, list)) else eval(c["grid"], {"array": np.array, "np": np})
    o = run_tuner(c["dir"], grid, c["table"], c["n_trials"], inline=False)

    class _Ctx:
        failures = []

        def fail(self, s, w, su, ca):
            self.failures.append((s, w))
    k = _Ctx()
    oracle(k, o, c["table"], c)
    print({x: o.get(x) for x in ("rows", "cells", "mean", "std", "rank_mean", "rank_std", "dense", "best_params", "best_score", "claims", "resolve_events", "raised")})
    for s, w in k.failures:
        print("still fails:", s, "-", w)
    return 1 if k.failures else 0
