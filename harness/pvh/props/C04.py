"""C04 — optimize() terminates exactly when the first configured stop criterion holds (S-loop)."""
from __future__ import annotations
import itertools
import math
import numpy as np

from pyvolutionary.models import BaseOptimizationConfig, EarlyStopping
from ..canon import bits, rerr, rnum
from ..scripted import Scripted, make_agent, script_task, quiet
from ..par import pmap
from ..lean import run_driver_parallel

SUITE = "S-loop"
ASSUMPTIONS = [
    "each optimization_step returns (non-termination inside a numerical update rule is outside the loop model; see the `while` inventory of C04 in DESIGN.md)",
    "fresh instance (reuse is C08)",
    "np.average is not reproduced bit-for-bit in general: scripted fitness values are dyadic so that the mean is exact in any summation order",
    "EarlyStopping(patience=None / min_delta=None) pass the validator and then raise TypeError: recorded under C06",
]
FITS = [0.5, 0.75, 0.875, 1.0, 1.25]          # rates 0.5, 0.25, 0.125, 0.0, 0.25


def rate_of(fits):
    return abs(1 - float(np.average(fits)))


def spec_N(rates, max_cycles, fe, es):
    """the declarative criterion: the first cycle k >= 1 at which a configured criterion holds."""
    diffs = [rates[0] - 0] + [rates[i] - rates[i - 1] for i in range(1, len(rates))]
    for k in range(1, len(rates) + 1):
        stop = k >= max_cycles
        if fe is not None and rates[k - 1] <= fe:
            stop = True
        if es is not None:
            p, md = es
            window = diffs[max(0, k - p):k]
            if all(d < 0 and abs(d) < md for d in window):
                stop = True
        if stop:
            return k
    return None


def build_case(c):
    """c: dict(gens=[[ (cost, fit), …], …], dir, maxCycles, fe, es) → (request for the model, run on the implementation)"""
    tag = 0
    gens_j, gens_a = [], []
    for g in c["gens"]:
        gj, ga = [], []
        for cost, fit in g:
            gj.append({"c": bits(cost), "f": bits(fit), "t": tag})
            ga.append(make_agent(tag, cost, fit))
            tag += 1
        gens_j.append(gj)
        gens_a.append(ga)
    req = {"op": "loop.run", "gens": gens_j, "dir": c["dir"], "maxCycles": c["maxCycles"],
           "fe": None if c["fe"] is None else bits(c["fe"]),
           "es": None if c["es"] is None else {"patience": c["es"][0], "minDelta": bits(c["es"][1])}}
    return req, gens_a


def run_impl(c):
    req, gens_a = build_case(c)
    cfg = BaseOptimizationConfig(population_size=len(gens_a[0]), max_cycles=c["maxCycles"], fitness_error=c["fe"],
                                 early_stopping=None if c["es"] is None else EarlyStopping(patience=c["es"][0], min_delta=c["es"][1]), **(c.get("extra_cfg") or {}))
    if c.get("inplace"):
        # the instance first runs under OTHER stop criteria; the caller then edits its configuration object in place
        # (`opt.configuration.max_cycles = …`): the next run must follow the edited values
        first = BaseOptimizationConfig(population_size=len(gens_a[0]), max_cycles=len(gens_a) - 1, fitness_error=None, early_stopping=None)
        opt = Scripted(first, gens_a)
        try:
            quiet(opt.optimize, script_task(c["dir"]))
        except Exception:  # noqa
            pass
        opt.configuration.max_cycles = cfg.max_cycles
        opt.configuration.fitness_error = cfg.fitness_error
        opt.configuration.early_stopping = cfg.early_stopping
    else:
        opt = Scripted(cfg, gens_a)
    task = script_task(c["dir"])
    try:
        res = quiet(opt.optimize, task)
    except Exception as e:  # noqa
        return req, rerr(e), None
    evo = [[[int(a.position[0]), rnum(a.cost)] for a in pop.agents] for pop in res.evolution]
    out = {"evolution": evo, "rates": [bits(r) for r in res.rates],
           "best": [int(res.best_solution.position[0]), rnum(res.best_solution.cost)], "steps": opt.steps}
    # the property's own oracle, from the scripted history alone
    rates_all = [rate_of([f for _, f in g]) for g in c["gens"][1:]]
    N = spec_N(rates_all, c["maxCycles"], c["fe"], c["es"])
    problems = []
    if N is None:
        problems.append("criterion never holds within the scripted history")
    else:
        if opt.steps != N:
            problems.append(f"executed {opt.steps} cycles, first criterion holds at cycle {N}")
        if len(res.evolution) != opt.steps + 1 or len(res.rates) != opt.steps:
            problems.append(f"shape: {len(res.evolution)} generations, {len(res.rates)} rates for {opt.steps} cycles")
        if [bits(r) for r in res.rates] != [bits(r) for r in rates_all[:opt.steps]]:
            problems.append(f"rates {res.rates} != |1-mean fitness| {rates_all[:opt.steps]}")
        if opt.steps > max(c["maxCycles"], 1):
            problems.append("more than max_cycles cycles")
    # C03 on the same run
    last = res.evolution[-1].agents
    b = res.best_solution
    sgn = 1 if c["dir"] == "min" else -1
    if not any(a.position == b.position and bits(a.cost) == bits(b.cost) for a in last):
        problems.append("C03: best_solution is not an agent of the last generation")
    if any(sgn * a.cost < sgn * b.cost for a in last):
        problems.append("C03: an agent of the last generation is strictly better than best_solution")
    exp_last = c["gens"][opt.steps] if opt.steps < len(c["gens"]) else None
    # scripted costs are internal costs: reported = internal for min, -internal for max
    if exp_last is not None and [rnum(a.cost) for a in last] != [rnum(sgn * cost) for cost, _ in exp_last]:
        problems.append("C03: reported costs of the last generation are not the sign-restored internal costs")
    return req, out, problems


def unknown_base_fields():
    """fields of BaseOptimizationConfig other than the four documented ones, with candidate values by declared type"""
    out = []
    for fname, f in BaseOptimizationConfig.model_fields.items():
        if fname in ("population_size", "fitness_error", "max_cycles", "early_stopping"):
            continue
        ann = str(f.annotation)
        if "bool" in ann:
            cand = [True, False]
        elif "int" in ann:
            cand = [0, 1, 2, 3, 5]
        elif "float" in ann:
            cand = [0.0, 0.5, 1.0, 2.0]
        else:
            continue
        ok = []
        for v in cand:
            try:
                BaseOptimizationConfig(population_size=2, max_cycles=2, **{fname: v})
                ok.append(v)
            except Exception:  # noqa — rejected by the field's validator
                pass
        out.append((fname, ok))
    return out


def gen_cases(ctx):
    rng = ctx.rng
    L = 6 if ctx.thorough else 4
    cases = []
    fes = lambda hist_rates: [None] + sorted({r for r in hist_rates} | {float(np.nextafter(r, -1)) for r in hist_rates if r > 0} | {float(np.nextafter(r, 2)) for r in hist_rates})
    es_opts = [None] + [(p, md) for p in (1, 2, 3) for md in (0.125, 0.25, 0.26, 1.0)]
    hists = list(itertools.product(FITS[:4], repeat=L))
    if not ctx.thorough:
        hists = rng.sample(hists, 256)
    else:
        hists = rng.sample(hists, 700)
    for h in hists:
        rates = [abs(1 - f) for f in h]
        for mc in range(1, L + 1):
            fe_list = fes(rates)
            for fe in ([None] + rng.sample(fe_list[1:], min(len(fe_list) - 1, 4 if ctx.thorough else 2))):
                for es in ([None] + rng.sample(es_opts[1:], min(len(es_opts) - 1, 5 if ctx.thorough else 3))):
                    d = rng.choice(["min", "max"])
                    f0 = rng.choice(FITS)
                    gens = [[(rng.choice([-2.0, 0.0, 1.5, 3.0]), f0)]] + [[(rng.choice([-2.0, 0.0, 1.5, 3.0]), f)] for f in h]
                    cases.append({"gens": gens, "dir": d, "maxCycles": mc, "fe": fe, "es": es, "kind": "single-agent history"})
                    if rng.random() < 0.15:
                        cases.append({"gens": gens, "dir": d, "maxCycles": mc, "fe": fe, "es": es, "kind": "in-place reconfiguration of a used instance", "inplace": True})
    # configuration fields of the base configuration that this harness does not know (a tree may have grown a new knob): every such
    # field is moved over a few values of its declared type; the criterion and the result shape are stated without it, so they must not move
    for fname, cand in unknown_base_fields():
        for v in cand:
            for base in rng.sample(cases, min(len(cases), 40)):
                cases.append(dict(base, extra_cfg={fname: v}, kind=f"unknown base-config field {fname}"))
    # multi-agent generations: ties in cost, pairs of dyadic fitness values, both directions
    for _ in range(3000 if not ctx.thorough else 30000):
        ps = rng.randrange(2, 5)
        Lr = rng.randrange(1, L + 1)
        gens = [[(rng.choice([-1.0, 0.0, 0.0, 2.5, 7.0]), rng.choice([0.25, 0.5, 0.75, 1.0, 1.5, 2.0])) for _ in range(ps)] for _ in range(Lr + 1)]
        rates = [rate_of([f for _, f in g]) for g in gens[1:]]
        fe = rng.choice([None, None] + rates + [float(np.nextafter(r, -1)) for r in rates])
        es = rng.choice([None, (1, 0.3), (2, 0.3), (1, 10.0), (2, 10.0), (3, 0.01)])
        cases.append({"gens": gens, "dir": rng.choice(["min", "max"]), "maxCycles": rng.randrange(1, Lr + 1), "fe": fe, "es": es, "kind": "multi-agent"})
    return cases


def run(ctx):
    ctx.prove(["PvModel.Props.C04", "PvModel.Props.T04", "PvModel.Props.R04", "PvModel.Props.R00", "PvModel.Props.T02"])
    run_suite(ctx, "C04")
    termination_probe(ctx)
    real_runs(ctx)


def real_runs(ctx):
    """"observationally, for all optimizers × tasks × seeds": every class, a few runs with each kind of criterion armed; judged by `oracles.check_c04`."""
    from .. import trace, optimizers, oracles
    rng = ctx.rng
    ctx.suites_run.append(oracles.SUITE)
    ctx.rule("real runs: every optimizer × {budget only, fitness_error near the rates it reaches, early stopping (patience 1..3 × min_delta 1e-4..10)} × min/max × serial(/thread): "
             "shape, budget, rate = |1 − mean fitness| bit-exact, stop cycle = first cycle of the declarative criterion over the reported rates; "
             "one run in three is the second run of its instance; one in six has an objective that itself runs another optimizer instance (re-entrancy); one in three runs a verbose instance (debug=True, output captured)")
    js = []
    for name in optimizers.names():
        for i in range(3 if not ctx.thorough else 10):
            cfg = {"max_cycles": rng.choice([1, 2, 4, 7, 12])}
            cfg["fitness_error"] = rng.choice([None, 0.0, 0.2, 0.5, 0.9, 0.99, 5.0])
            if rng.random() < 0.6:
                cfg["early_stopping"] = {"patience": rng.choice([1, 1, 2, 3]), "min_delta": rng.choice([1e-4, 0.01, 0.1, 1.0, 10.0])}
            kind = rng.choice(trace.CONT_KINDS)
            js.append({"name": name, "kind": kind, "specs": trace.task_specs(rng, kind, rng.choice([1, 2, 3, 5])), "objective": rng.choice(["sphere", "linear", "rastrigin"]),
                       "minmax": rng.choice(["min", "max"]), "seed": rng.randrange(1, 10 ** 6), "cfg": cfg, "mode": rng.choice(["serial", "serial", "thread"]), "trace": False})
            if i == 1 and rng.random() < 0.5:
                # re-entrancy: every objective evaluation runs another optimizer instance to completion
                js[-1]["nested"] = True
                js[-1]["cfg"]["max_cycles"] = min(js[-1]["cfg"]["max_cycles"], 4)
                js[-1]["mode"] = "serial"
            if i == 2 or (i > 2 and rng.random() < 0.3):
                # verbose instances (`Optimizer(config, debug=True)`): printing a cycle's figures must not be part of the bookkeeping
                js[-1]["debug"] = True
            if i == 0:
                # the judged run is the SECOND one of its instance (same task, other seed): counters and rate histories of the first run must not show
                js[-1]["warmup"] = {"seed": rng.randrange(1, 10 ** 6)}
    results = pmap(trace.run_traced, js)
    for r in results:
        ok = "result" in r
        n = len(r["result"]["rates"]) if ok else 0
        ctx.case(repr(oracles.job_key(r["job"])), nontrivial=ok and n >= 1, kind=f"real:{'ok' if ok else 'raised'}:{'budget' if ok and n >= r['job']['cfg']['max_cycles'] else 'criterion'}")
    oracles.check_c04(ctx, results)


def termination_probe(ctx):
    """`optimize()` always terminates: the theorem assumes each step returns; the `while` inventory (T04) names the one loop of the
    package without a termination argument, `helpers.get_partner_index`, which spins forever for `num_elements = 1`. The probe runs the
    smallest configurations of every class that calls it (and of every class with a `while` in its own module) under a watchdog."""
    from .. import trace, optimizers
    facts = getattr(ctx, "facts", {})
    users = sorted({a["cls"] for a in facts.get("algos", []) if a.get("whileLoops")} | {"BeeColonyOptimization"})
    js = []
    for name in users:
        if name not in optimizers.names():
            continue
        for ps in (2, 3, 4):
            js.append({"name": name, "kind": "cont-sym", "specs": [{"k": "contMulti", "lbs": [-5.0, -5.0], "ubs": [5.0, 5.0]}], "objective": "sphere", "minmax": "min", "seed": 1,
                       "cfg": {"max_cycles": 2, "fitness_error": None, "population_size": ps}, "mode": "serial", "trace": False, "timeout": 5})
    for r in pmap(trace.run_traced, js):
        j = r["job"]
        e = r.get("exception") or {}
        ctx.case(("termination-probe", j["name"], j["cfg"]["population_size"]), kind=f"termination-probe:{'timeout' if e.get('type') == 'RunTimeout' else 'returned-or-raised'}")
        if e.get("type") == "RunTimeout":
            ctx.fail(f"C04/{j['name']}/optimize-does-not-terminate/{e.get('func')}", f"population_size={j['cfg']['population_size']}: still running after 5 s (max_cycles = 2)", "S-trace", {"job": j})


def run_suite(ctx, prop):
    ctx.suites_run.append(SUITE)
    ctx.rule("scripted optimizer driving the real optimize(): fitness histories over a dyadic alphabet (rates 0.5/0.25/0.125/0), length ≤ 4 quick / 6 thorough, "
             "× max_cycles 1..L × fitness_error in {None, a rate of the history, 1 ulp below, 1 ulp above} × early stopping {None, patience 1..3 × min_delta at/around a difference} "
             "× direction; a seventh of them on an instance that already ran under other criteria and whose configuration object was then edited in place; plus multi-agent generations with cost ties; non-trivial = the run executes ≥ 2 cycles or stops by a criterion other than the budget; distinct by full case")
    cases = gen_cases(ctx)
    results = pmap(run_impl, cases)
    answers = run_driver_parallel([r[0] for r in results])
    for c, (req, impl, problems), model in zip(cases, results, answers):
        steps = impl.get("steps") if isinstance(impl, dict) else None
        by_budget = steps is not None and steps >= c["maxCycles"]
        ctx.case(repr(c), nontrivial=bool(steps and (steps >= 2 or not by_budget)), kind=f"{c['kind']}:stops-at-{steps}:{'budget' if by_budget else 'criterion'}")
        if model != impl:
            ctx.disagree(SUITE, c, model, impl)
        for p in problems or []:
            is03 = p.startswith("C03")
            if (prop == "C03") == is03:
                kind = p.split(":")[0] if is03 else "stop-rule"
                ctx.fail(f"{prop}/optimize/{'best-not-optimum-of-last-generation' if is03 else 'wrong-stop-cycle-or-shape'}", p, SUITE, c)
        if isinstance(impl, dict) and "err" in impl:
            ctx.fail(f"{prop}/optimize/raises-{impl['err']}", "optimize raised on a scripted history", SUITE, c)
        ctx.sample({"case": {k: v for k, v in c.items()}, "implementation": impl}, limit=4)


def replay(case):
    import json
    c = case["case"]
    if "job" in c:
        from .. import trace
        r = trace.run_traced(dict(c["job"], timeout=10))
        print(json.dumps({"job": c["job"], "outcome": r.get("exception") or "returned"}, indent=1, default=str))
        return 1 if (r.get("exception") or {}).get("type") == "RunTimeout" else 0
    c["es"] = tuple(c["es"]) if c.get("es") else None
    c["gens"] = [[tuple(a) for a in g] for g in c["gens"]]
    req, impl, problems = run_impl(c)
    print(json.dumps({"case": c, "implementation": impl, "problems": problems}, indent=1, default=str))
    return 1 if problems else 0
