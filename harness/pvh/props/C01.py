"""C01 — every reported solution lies inside the declared search space (S-trace on bound-stressing tasks)."""
from __future__ import annotations
from .. import trace, jobs, oracles, optimizers
from ..par import pmap

ASSUMPTIONS = [
    "RawOK: the numerical update rule hands _init_agent a NaN-free candidate with at least `dim` well-shaped coordinates — assumed by the theorem, monitored on every traced run (a NaN candidate shows up as a C05/C01 oracle failure with the input)",
    "integer-coded tasks are run only for the (optimizer, encoding) pairs of data/baseline_pairs.json (pairs that run at all today; the rest is C06's business)",
    "process-mode runs are judged on their results only (worker-side _init_agent events are not observable without source hooks)",
]
MODULES = ["PvModel.Props.C01", "PvModel.Accept", "PvModel.Props.T01", "PvModel.Props.T05", "PvModel.Props.R13", "PvModel.Props.R02", "PvModel.Props.T13", "PvModel.Props.T14", "PvModel.Props.R14", "PvModel.Props.R11", "PvModel.Props.R12"]


def run(ctx):
    ctx.prove(MODULES)
    ctx.table_obligations = 0
    ctx.suites_run.append(oracles.SUITE)
    names = optimizers.names()
    n = 10 if not ctx.thorough else 60
    js = jobs.make_jobs(ctx.rng, names, trace.CONT_KINDS + trace.INT_KINDS + ["multiobj"], n,
                        modes=("serial", "serial", "serial", "thread") if not ctx.thorough else ("serial", "serial", "thread", "process"),
                        max_cycles_choices=(1, 2, 3, 5), pop_scales=(1, 1, 1.5, 2), multi=True)
    ctx.rule("all exported optimizers × generated tasks (continuous: symmetric, asymmetric, zero-touching, one-sided, tiny 1e-9, huge 1e9, scalar variables; multi-objective; "
             "discrete / discrete-multi / binary / mixed / permutation for the pairs that run today) × objectives × min/max × cycle budgets 1..5 × population 1×/1.5×/2× × seeds × serial/thread(/process), plus every optimizer once (thrice) under a process pool; a sixth of the continuous runs on an instance that has just solved a task over a disjoint space; an eighth of the continuous tasks are derived (model_copy(update=variables)) from an already used, wider task; "
             "every agent of every generation + best_solution is judged by the Lean membership predicate; a case = one run; non-trivial = the run returned a result with ≥ 2 generations; distinct by job")
    # tasks derived from an already used task (same kinds and sizes, narrower / shifted bounds): a multi-step history
    for j in ctx.rng.sample(js, len(js) // 8):
        if j["kind"] in ("cont", "cont-sym", "cont-zero", "cont-onesided") and len(j["specs"]) == 1:
            sp = j["specs"][0]
            wide = {"k": "contMulti", "lbs": [lb - 3 * (ub - lb) for lb, ub in zip(sp["lbs"], sp["ubs"])], "ubs": [ub + 3 * (ub - lb) for lb, ub in zip(sp["lbs"], sp["ubs"])]}
            j["derive_from"] = [wide]
            j["kind"] = j["kind"] + "+derived"
    # the same optimizer instance has just solved a task over ANOTHER space (shifted, disjoint bounds): nothing of it may be reported
    for j in ctx.rng.sample(js, len(js) // 6):
        if j["kind"] in ("cont", "cont-sym", "cont-zero", "cont-onesided", "cont-tiny") and len(j["specs"]) == 1 and not j.get("derive_from"):
            sp = j["specs"][0]
            w = [ub - lb for lb, ub in zip(sp["lbs"], sp["ubs"])]
            j["warmup"] = {"specs": [{"k": "contMulti", "lbs": [ub + 2 * d for ub, d in zip(sp["ubs"], w)], "ubs": [ub + 3 * d for ub, d in zip(sp["ubs"], w)]}]}
            j["kind"] = j["kind"] + "+reused-instance"
    # a tenth of the runs use an objective that overwrites its argument after reading it (scratch-space objectives): what is reported must be what the library
    # corrected, not what user code left in a list it was handed
    for j in ctx.rng.sample(js, len(js) // 10):
        if not j.get("warmup") and not j.get("derive_from"):
            j["scribble"] = True
            j["kind"] = j["kind"] + "+argument-overwriting-objective"
    # every optimizer once under a pool of processes (a branch of its own in the shared combinators, and in any algorithm that pools by itself), on a task with
    # integer-coded coordinates where the pair runs today, otherwise on a narrow continuous box where proposals leave the space all the time
    pj = jobs.make_jobs(ctx.rng, names, ["mixed", "disc", "cont-tiny"], 1 if not ctx.thorough else 3, modes=("process",), max_cycles_choices=(2, 3), trace_events=False)
    for j in pj:
        j["kind"] = j["kind"] + "+process-pool"
    js += pj
    # every zero-valued candidate of every algorithm parameter the validators accept (an operator switched off): where 0/0 and empty selections arise
    sw = jobs.param_sweep_jobs(ctx.rng, names, kinds=("cont", "cont-sym"), max_cycles=3, objectives=("sphere", "linear"), minmaxes=("min", "max"))
    js += [j for j in sw if any(v == 0 and not isinstance(v, bool) for k, v in j["cfg"].items() if k not in ("max_cycles", "fitness_error"))]
    results = pmap(trace.run_traced, js)
    judge(ctx, results, ["C01"])


def judge(ctx, results, props):
    for r in results:
        job = r["job"]
        ok = "result" in r
        ctx.case(repr(oracles.job_key(job)), nontrivial=ok and len(r["result"]["evolution"]) >= 2,
                 kind=f"{job['kind']}:{job['mode']}:{job['minmax']}:{'ok' if ok else 'raised'}")
        if not ok:
            ctx.dist["runs-that-raised (C06's business)"] += 1
    if "C01" in props:
        oracles.check_c01(ctx, results)
    if "C02" in props:
        oracles.check_c02(ctx, results)
    if "C05" in props:
        oracles.check_c05(ctx, results)
    if "C03" in props:
        oracles.check_c03(ctx, results)
    oracles.check_init_correspondence(ctx, results)
    for r in results[:3]:
        if "result" in r:
            ctx.sample({"job": oracles.job_key(r["job"]), "generations": len(r["result"]["evolution"]), "init_agent_events": len(r.get("inits", [])),
                        "objective_calls": len(r.get("calls", [])), "best": trace.dec_pos(r["result"]["best"]["pos"])})


def replay(case):
    import json
    job = case["case"]["job"]
    job["trace"] = True
    r = trace.run_traced(job)
    class C:  # minimal ctx
        def __init__(self): self.failures = []; self.dist = __import__("collections").Counter(); self.disagreements = []
        def fail(self, sig, what, suite, case): self.failures.append((sig, what))
        def disagree(self, *a): self.disagreements.append(a)
    c = C()
    oracles.check_c01(c, [r]); oracles.check_c02(c, [r]); oracles.check_c05(c, [r])
    want = case["signature"].split("/", 1)[0]
    hits = [f for f in c.failures if f[0].startswith(want)]
    print(json.dumps({"job": job, "exception": r.get("exception"), "failures": hits[:5]}, indent=1, default=str))
    return 1 if hits else 0
