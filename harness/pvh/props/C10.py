"""C10 — the population size is conserved across generations (S-trace size sweeps)."""
from __future__ import annotations
from .. import trace, jobs, oracles, optimizers
from ..par import pmap

ASSUMPTIONS = [
    "population sizes 1×, 1.5×, 2×, 3× the documented (fixture) scale, subject to each configuration class's own validators (rejected configurations are skipped and counted)",
    "Bee Colony, Forest and Imperialist Competitive are variable-size by design: non-empty and never larger than population_size",
]
MODULES = ["PvModel.Props.C10", "PvModel.Props.T10", "PvModel.Props.R10"]


def run(ctx):
    ctx.prove(MODULES)
    ctx.suites_run.append(oracles.SUITE)
    rng = ctx.rng
    n = 16 if not ctx.thorough else 80
    ctx.rule("all exported optimizers × continuous tasks and low-cardinality discrete / binary tasks (identical individuals occur) × population 1×/1.5×/2×/3× the documented scale (+0/+1/+3/+7 agents: sizes that are not multiples of group counts) × one algorithm parameter moved inside its validator range in half of the runs (plus a systematic sweep: every accepted candidate value of every algorithm parameter once) × cycle budgets 1..6 × seeds; for the group-cutting classes every accepted value 2..10 of every integer parameter × 4 population sizes; two runs per class on an instance that first ran under another population size and was then re-configured through set_config_parameters × serial/thread/process with 1..16 workers: "
             "len(generation) for every generation; a case = one run; non-trivial = ≥ 2 generations")
    js = jobs.make_jobs(rng, optimizers.names(), ["cont-sym", "cont", "cont-zero", "cont-scalars", "disc", "binary", "disc"], n,
                        modes=("serial", "serial", "thread", "process") if not ctx.thorough else ("serial", "thread", "process"),
                        max_cycles_choices=(1, 2, 3, 4, 6), pop_scales=(1, 1.5, 2, 3), pop_offsets=(0, 0, 1, 3, 7), vary_params=0.5, trace_events=False)
    # systematic sweep: every accepted value of every algorithm parameter once, at the documented population size
    for name in optimizers.names():
        for k, v in optimizers.param_variants(name):
            js.append({"name": name, "kind": "cont-sym", "specs": trace.task_specs(rng, "cont-sym", 3), "objective": "sphere", "minmax": "min", "seed": rng.randrange(1, 10 ** 6),
                       "cfg": {"max_cycles": 2, "fitness_error": None, k: v}, "mode": "serial", "trace": False})
    # every integer parameter at the smallest / largest value its validators accept (thresholds at their lowest: splits, eliminations, restarts that the
    # documented values never reach), with a cycle budget long enough for counters to reach them
    for name in optimizers.names():
        for k, v in optimizers.param_extremes(name):
            js.append({"name": name, "kind": "cont-sym+extreme-parameter", "specs": trace.task_specs(rng, "cont-sym", 3), "objective": rng.choice(["sphere", "rastrigin"]), "minmax": "min",
                       "seed": rng.randrange(1, 10 ** 6), "cfg": {"max_cycles": 25, "fitness_error": None, k: v}, "mode": "serial", "trace": False})
    # re-configured instances: first run under a smaller / larger population, then set_config_parameters(judged configuration)
    for name in optimizers.names():
        base = optimizers.CFGS[name][1]["population_size"]
        for frm, to in ((base, 2 * base), (2 * base + 1, base)):
            js.append({"name": name, "kind": "cont-sym", "specs": trace.task_specs(rng, "cont-sym", 3), "objective": "sphere", "minmax": "min", "seed": rng.randrange(1, 10 ** 6),
                       "cfg": {"max_cycles": 3, "fitness_error": None, "population_size": to}, "reconfigure_from": {"max_cycles": 2, "fitness_error": None, "population_size": frm},
                       "mode": "serial", "trace": False})
    # classes that cut the population into groups (`_generate_group_population`): every accepted group-count / group-size value 2..10 of every integer
    # parameter × population sizes that are and are not multiples of it (left-overs of 0, 1, and of more than one whole group)
    import inspect
    import sys as _sys
    import pyvolutionary as _pv
    for name in optimizers.names():
        cls = optimizers.OPTS[name]
        try:
            src = inspect.getsource(_sys.modules[cls.__module__])
        except Exception:  # noqa
            continue
        if "_generate_group_population" not in src:
            continue
        cname, d = optimizers.CFGS[name]
        ccls = getattr(_pv, cname)
        base = d["population_size"]
        for k, v in d.items():
            if k in optimizers.BASE_KEYS or isinstance(v, bool) or not isinstance(v, int):
                continue
            for val in range(2, 11):
                for ps in (base, base + 1, base + 4, max(val + 1, base - 5)):
                    dd = dict(d, **{k: val, "population_size": ps})
                    try:
                        ccls(**dd)
                    except Exception:  # noqa — rejected by the validators
                        continue
                    js.append({"name": name, "kind": "cont-sym", "specs": trace.task_specs(rng, "cont-sym", 2), "objective": "sphere", "minmax": "min", "seed": rng.randrange(1, 10 ** 6),
                               "cfg": {"max_cycles": 2, "fitness_error": None, k: val, "population_size": ps}, "mode": "serial", "trace": False})
    for j in js:
        if j["mode"] != "serial":
            j["workers"] = rng.choice([1, 2, 3, 4, 8, 16])
    results = pmap(trace.run_traced, js)
    for r in results:
        job = r["job"]
        ok = "result" in r
        scale = "x%.1f" % (job["cfg"].get("population_size", 0) / optimizers.CFGS[job["name"]][1]["population_size"]) if "population_size" in job["cfg"] else "x1.0"
        ctx.case(repr(oracles.job_key(job)), nontrivial=ok and len(r["result"]["evolution"]) >= 2, kind=f"{job['mode']}:{scale}:{'ok' if ok else ('rejected' if 'setup_error' in r else 'raised')}")
    oracles.check_c10(ctx, results)
    oracles.check_skeleton_conformance(ctx, results, getattr(ctx, "facts", {}).get("steps", {}).get("classes", {}))
    for r in results[:2]:
        if "result" in r:
            ctx.sample({"job": oracles.job_key(r["job"]), "sizes": [len(g) for g in r["result"]["evolution"]], "population_size": r["cfg_before"].get("population_size")})


def replay(case):
    import json
    r = trace.run_traced(dict(case["case"]["job"], trace=False))
    sizes = [len(g) for g in r["result"]["evolution"]] if "result" in r else None
    print(json.dumps({"job": case["case"]["job"], "sizes": sizes, "population_size": r.get("cfg_before", {}).get("population_size")}, indent=1, default=str))
    class C:
        def __init__(self): self.failures = []; self.dist = __import__("collections").Counter()
        def fail(self, sig, what, suite, case): self.failures.append(sig)
    c = C()
    oracles.check_c10(c, [r])
    return 1 if c.failures else 0
