"""C14 — a task's search-space description is consistent with its variables (S-task)."""
from __future__ import annotations
import itertools
import math
import numpy as np

from .. import gen
from ..canon import bits, rcoord, rerr, raw_json, coord_json, rnum, is_int
from ..lean import run_driver_parallel
from .C13 import Cases, call

SUITE = "S-task"
ASSUMPTIONS = [
    "variable names are distinct (transform_solution returns a dict keyed by name)",
    "positions have exactly `dim` coordinates (the quantifier of the property)",
    "the double n - 1e-4 that PermutationVariable.get_bounds reports is passed to the model as observed and only checked to lie in (n-1, n)",
]


def render_bounds(b):
    lb, ub = b
    def r(a):
        out = []
        for e in a:
            if isinstance(e, (list, tuple, np.ndarray)):
                out.append([rnum(x) for x in e])
            else:
                out.append(rnum(e))
        return out
    return [r(lb), r(ub)]


def own_bounds(spec):
    """the declared variable's own bounds, coordinate by coordinate, computed by the harness from the declaration."""
    k = spec["k"]
    if k == "cont":
        return [spec["lb"]], [spec["ub"]]
    if k in ("contMulti", "multiObj"):
        return list(spec["lbs"]), list(spec["ubs"])
    if k == "disc":
        return [0], [spec["n"] - 1]
    if k == "discMulti":
        return [0] * len(spec["ns"]), [n - 1 for n in spec["ns"]]
    if k == "binary":
        return [0.0] * spec["n"], [2 - np.finfo(float).eps] * spec["n"]
    if k == "perm":
        return [[0.0] * spec["n"]], [[spec["n"] - 1e-4] * spec["n"]]


def decode_expected(spec, model_entry):
    """turn the model's decoded entry (indices) into the Python value the declaration designates."""
    k = spec["k"]
    ch = gen.spec_choices(spec)
    if k == "cont":
        return ("num", model_entry)
    if k in ("contMulti", "multiObj"):
        return ("nums", model_entry)
    if k == "disc":
        return ("val", ch[model_entry["c"]])
    if k == "discMulti":
        return ("vals", [ch[i][e["c"]] for i, e in enumerate(model_entry)])
    if k == "binary":
        return ("vals", [e["c"] for e in model_entry])
    if k == "perm":
        labels = sorted(set(ch), key=lambda x: (isinstance(x, (int, float)), x))
        return ("vals", [labels[e["l"]] for e in model_entry])


def render_decoded(spec, v):
    """canonical form of what the implementation decoded; an entry of the wrong shape (a list where a number belongs, …) is rendered as such,
    never raised: it then differs from the model's answer and fails the decoded-slice oracle"""
    try:
        return _render_decoded(spec, v)
    except Exception:  # noqa
        return ("unrenderable", repr(v)[:200])


def _render_decoded(spec, v):
    k = spec["k"]
    if k == "cont":
        return ("num", rnum(v))
    if k in ("contMulti", "multiObj"):
        return ("nums", [rnum(x) for x in v])
    if k == "disc":
        return ("val", v)
    return ("vals", list(v))


def rand_raw(rng, flat):
    """a raw candidate coordinate for a flattened variable."""
    if flat[0] == "cont":
        return rng.choice(gen.values_around(rng, flat[1], flat[2])[:13] + [rng.uniform(flat[1], flat[2])] * 6)
    if flat[0] == "disc":
        n = flat[1]
        return rng.choice([-1.0, 0.0, n - 1.0, float(n), rng.uniform(-1, n + 1), rng.uniform(0, n), math.inf, -math.inf])
    n = flat[1]
    return [rng.uniform(-3, 3) for _ in range(n)]


def run(ctx):
    ctx.prove(["PvModel.Props.C14", "PvModel.Props.R13", "PvModel.Props.T14", "PvModel.Props.R14"])
    ctx.suites_run.append(SUITE)
    rng = ctx.rng
    ctx.rule("variable lists: every kind sequence of length 1..2 over the seven kinds (exhaustive), random sequences of length 3..4, "
             "parameters sampled (sizes 1..3 incl. size-1 multi-variables, lone permutations); tasks derived from an already used task by model_copy(update=variables) / copy-then-assign; positions of matching dimension built from per-variable "
             "candidates (in/out of range, boundaries, ±inf; a third of them all-integer lists / int ndarrays); ops dim/get_bounds/correct_solution/initial_solution/transform_solution; "
             "non-trivial = every case (distinct by declaration list, op and position)")
    seqs = [list(s) for L in (1, 2) for s in itertools.product(gen.KINDS, repeat=L)]
    n_rand = 150 if not ctx.thorough else 3000
    for _ in range(n_rand):
        seqs.append([rng.choice(gen.KINDS) for _ in range(rng.randrange(3, 5))])
    reps = 2 if not ctx.thorough else 6
    C = Cases(ctx)
    memC = Cases(ctx)
    for seq in seqs:
        for rep in range(reps):
            specs = [gen.rand_spec(rng, k) for k in seq]
            if rep == 0:
                # force size-1 multi variables into the mix
                for s in specs:
                    if s["k"] in ("contMulti", "multiObj"):
                        s["lbs"], s["ubs"] = s["lbs"][:1], s["ubs"][:1]
                    elif s["k"] == "discMulti":
                        s["ns"] = s["ns"][:1]
                    elif s["k"] == "binary":
                        s["n"] = 1
            # names: v0, v1, … — or (one task in four) distinct top-level names of which a later one coincides with the name a
            # multi-variable gives its second child (`x`, then `x1`): one entry per DECLARED variable, keyed by ITS name, whatever the children are called
            names = [f"v{i}" for i in range(len(specs))]
            if rng.random() < 0.25:
                for j, sj in enumerate(specs):
                    if gen.spec_size(sj) >= 2 and sj["k"] in ("contMulti", "multiObj", "discMulti", "binary") and j + 1 < len(specs):
                        names[j] = "x"
                        names[j + 1] = "x1"
                        break
            meta0 = {"specs": specs, "names": names}
            ok, task = call(lambda: gen.make_task(specs, names=names))
            if not ok:
                ctx.fail("C14/Task/construction", f"valid declarations rejected: {task!r}", SUITE, meta0)
                continue
            tj = [gen.spec_json(s) for s in specs]
            flats = [f for s in specs for f in gen.spec_flat(s)]
            dim = len(flats)
            has_perm = any(s["k"] == "perm" for s in specs)
            mixed_perm = has_perm and (len(specs) > 1)
            # ---- dim
            C.add({"op": "task.dim", "task": tj}, int(task.space_dimension), {**meta0, "op": "dim"})
            if task.space_dimension != sum(gen.spec_size(s) for s in specs):
                ctx.fail("C14/Task.space_dimension/not-sum-of-sizes", f"{task.space_dimension}", SUITE, meta0)
            # ---- get_variables
            okv, gv = call(task.get_variables)
            if not okv or len(gv) != dim:
                ctx.fail("C14/Task.get_variables/length", f"{gv!r}", SUITE, meta0)
            # ---- get_bounds
            okb, b = call(task.get_bounds)
            perm_ub = [bits(n - 1e-4) for n in range(0, 8)]
            C.add({"op": "task.bounds", "task": tj, "permUb": perm_ub}, render_bounds(b) if okb else rerr(b), {**meta0, "op": "bounds"})
            if not okb:
                sig = ("C14/Task.get_bounds/permutation-mixed-with-other-variables" if (mixed_perm and isinstance(b, ValueError) and "inhomogeneous" in str(b))
                       else f"C14/Task.get_bounds/raises-{type(b).__name__}")
                ctx.fail(sig, f"get_bounds raised {b!r}", SUITE, meta0)
            else:
                elb = [x for s in specs for x in own_bounds(s)[0]]
                eub = [x for s in specs for x in own_bounds(s)[1]]
                same = (len(b[0]) == dim == len(b[1]) and render_bounds((elb, eub)) == render_bounds(b))
                le = all(np.all(np.asarray(l) <= np.asarray(u)) for l, u in zip(b[0], b[1]))
                if not same:
                    ctx.fail("C14/Task.get_bounds/not-own-variable-bounds", f"got {render_bounds(b)} expected {render_bounds((elb, eub))}", SUITE, meta0)
                elif not le:
                    ctx.fail("C14/Task.get_bounds/lower-above-upper", f"{b!r}", SUITE, meta0)
            # ---- correct_solution / transform_solution on positions of matching dimension
            for rnd in range(3):
                xs = [rand_raw(rng, f) for f in flats]
                if rnd == 2:
                    # a hand-written warm start: every coordinate a Python int (or, every other time, an int ndarray): same values as the floats, other dtype
                    if any(isinstance(x, list) or not math.isfinite(x) for x in xs):
                        continue
                    xs = [int(round(x)) + rng.choice([-7, 0, 0, 9]) for x in xs]
                    if rng.random() < 0.5:
                        xs = np.array(xs)
                meta = {**meta0, "x": repr(xs)}
                okc, y = call(task.correct_solution, xs)
                C.add({"op": "task.correct", "task": tj, "x": [raw_json(x) for x in xs]}, [rcoord(c) for c in y] if okc else rerr(y), {**meta, "op": "correct"})
                if not okc:
                    ctx.fail(f"C14/Task.correct_solution/raises-{type(y).__name__}", f"{y!r}", SUITE, meta)
                    continue
                if len(y) != dim:
                    ctx.fail("C14/Task.correct_solution/length", f"{len(y)} != {dim}", SUITE, meta)
                memC.add({"op": "task.mem", "task": tj, "c": [coord_json(c) for c in y]}, None, {**meta, "op": "mem", "y": repr(y), "sig": "C14/Task.correct_solution/not-coordinate-wise-member"})
                # transform
                okt, d = call(task.transform_solution, y)
                if okt:
                    impl = [[i, list(render_decoded(s, d.get(names[i])))] for i, s in enumerate(specs)] if list(d.keys()) == names else {"keys": list(d.keys())}
                else:
                    impl = rerr(d)
                C.add({"op": "task.transform", "task": tj, "c": [coord_json(c) for c in y]}, impl, {**meta, "op": "transform", "y": repr(y)})
                if not okt:
                    size1 = any(gen.spec_size(s) == 1 and s["k"] in ("contMulti", "multiObj", "discMulti", "binary") for s in specs)
                    sig = "C14/Task.transform_solution/size-1-multi-variable" if size1 else f"C14/Task.transform_solution/raises-{type(d).__name__}"
                    ctx.fail(sig, f"transform_solution raised {d!r}", SUITE, meta)
                else:
                    # independent oracle: one entry per declared variable, keyed by name, the decoded slice
                    if list(d.keys()) != names:
                        ctx.fail("C14/Task.transform_solution/keys", f"{list(d.keys())}", SUITE, meta)
                    else:
                        off = 0
                        for i, s in enumerate(specs):
                            sl = y[off:off + gen.spec_size(s)]
                            off += gen.spec_size(s)
                            ch = gen.spec_choices(s)
                            k = s["k"]
                            if k == "cont":
                                exp = sl[0]
                            elif k in ("contMulti", "multiObj"):
                                exp = list(sl)
                            elif k == "disc":
                                exp = ch[sl[0]]
                            elif k == "discMulti":
                                exp = [ch[j][c] for j, c in enumerate(sl)]
                            elif k == "binary":
                                exp = list(sl)
                            else:
                                labels = sorted(set(ch), key=lambda x: (isinstance(x, (int, float)), x))
                                exp = [labels[c] for c in sl[0]]
                            if repr(d[names[i]]) != repr(exp):
                                ctx.fail("C14/Task.transform_solution/not-decoded-slice", f"{names[i]}: {d[names[i]]!r} != {exp!r}", SUITE, meta)
            # ---- a task derived from an already used one (same kinds and sizes, other parameters): its description must be its own
            if rep == 1 and not has_perm:
                specs2 = []
                for sp in specs:
                    s2 = gen.rand_spec(rng, sp["k"])
                    # keep the sizes so that space_dimension (computed at construction) stays right
                    if sp["k"] in ("contMulti", "multiObj"):
                        bs = [gen.rand_bounds(rng) for _ in sp["lbs"]]
                        s2 = {"k": sp["k"], "lbs": [b[0] for b in bs], "ubs": [b[1] for b in bs]}
                    elif sp["k"] == "discMulti":
                        s2 = {"k": "discMulti", "ns": [rng.randrange(1, 6) for _ in sp["ns"]]}
                    elif sp["k"] == "binary":
                        s2 = dict(sp)
                    specs2.append(s2)
                new_vars = [gen.make_variable(sp, f"v{i}") for i, sp in enumerate(specs2)]
                for how in ("model_copy(update)", "copy-then-assign"):
                    if how == "model_copy(update)":
                        okd, t2 = call(lambda: task.model_copy(update={"variables": new_vars}))
                    else:
                        def mk():
                            t = task.model_copy()
                            t.variables = new_vars
                            return t
                        okd, t2 = call(mk)
                    if not okd:
                        continue
                    flats2 = [f for sp in specs2 for f in gen.spec_flat(sp)]
                    xs = [rand_raw(rng, f) for f in flats2]
                    metad = {"specs": specs2, "derived_from": specs, "how": how, "x": repr(xs)}
                    okc, y = call(t2.correct_solution, xs)
                    C.add({"op": "task.correct", "task": [gen.spec_json(sp) for sp in specs2], "x": [raw_json(x) for x in xs]}, [rcoord(c) for c in y] if okc else rerr(y), {**metad, "op": "correct-derived"})
                    if okc:
                        memC.add({"op": "task.mem", "task": [gen.spec_json(sp) for sp in specs2], "c": [coord_json(c) for c in y]}, None,
                                 {**metad, "op": "mem-derived", "y": repr(y), "sig": "C14/Task.correct_solution/derived-task-corrected-with-stale-variables"})
                    okb2, b2 = call(t2.get_bounds)
                    if okb2:
                        elb = [x for sp in specs2 for x in own_bounds(sp)[0]]
                        eub = [x for sp in specs2 for x in own_bounds(sp)[1]]
                        if render_bounds((elb, eub)) != render_bounds(b2):
                            ctx.fail("C14/Task.get_bounds/derived-task-reports-stale-bounds", f"{how}: got {render_bounds(b2)[0][:3]}… expected {render_bounds((elb, eub))[0][:3]}…", SUITE, metad)
            # ---- initial_solution (random): one coordinate per dimension, member
            oki, y = call(task.initial_solution)
            if not oki:
                ctx.fail(f"C14/Task.initial_solution/raises-{type(y).__name__}", f"{y!r}", SUITE, meta0)
            else:
                memC.add({"op": "task.mem", "task": tj, "c": [coord_json(c) for c in y]}, None, {**meta0, "op": "mem-initial", "y": repr(y), "sig": "C14/Task.initial_solution/not-a-member"})

    for req, impl, model, meta in C.flush():
        ctx.case((meta["op"], repr(meta["specs"]), meta.get("x"), meta.get("y")), kind=meta["op"])
        if meta["op"] == "transform" and isinstance(model, list) and isinstance(impl, list):
            # model entries are indices into the declared choices: turn them into values
            model = [[i, list(decode_expected(meta["specs"][i], e))] for i, e in model]
            model = [[i, [t, [repr(x) for x in v] if isinstance(v, list) and t == "vals" else (repr(v) if t == "val" else v)]] for i, (t, v) in model]
            impl = [[i, [t, [repr(x) for x in v] if isinstance(v, list) and t == "vals" else (repr(v) if t == "val" else v)]] for i, (t, v) in impl]
        if model != impl:
            ctx.disagree(SUITE, {k: v for k, v in meta.items()}, model, impl)
        ctx.sample({"case": meta, "implementation": impl, "model": model}, limit=5)
    for req, _, model, meta in memC.flush():
        ctx.case((meta["op"], repr(meta["specs"]), meta.get("x"), meta.get("y")), kind=meta["op"])
        if model is not True:
            ctx.fail(meta["sig"], f"{meta['y']} is not coordinate-wise a member ({meta['specs']})", SUITE, meta)


def replay(case):
    import json
    print(json.dumps(case, indent=1, default=str))
    c = case["case"]
    task = gen.make_task(c["specs"], names=c.get("names"))
    sig = case["signature"]
    try:
        if "get_bounds" in sig:
            print(task.get_bounds())
        elif "transform" in sig:
            print(task.transform_solution(task.initial_solution()))
        else:
            print(task.correct_solution(eval(c["x"], {"inf": math.inf, "nan": math.nan})))
    except Exception as e:
        print("still fails:", type(e).__name__, e)
        return 1
    return 0
