"""C20 — Multitask runs every algorithm on every task with the designated mode (S-multi).

The REAL `pyvolutionary.Multitask` is driven with scripted optimizers: subclasses of `OptimizationAbstract` (distinct
class names) whose `optimize(task, mode, workers)` does no optimisation but returns an `OptimizationResult` that encodes
(which optimizer class, which task class, mode, workers) in `rates`, and appends one line per call to a side-channel
log file (trials run in a `ProcessPoolExecutor`, so everything observable must travel in the return value or a file).
Tasks are instances of distinct `Task` subclasses. The tables are read where `execute` leaves them: `Multitask._df2`
(a list of DataFrames, one per algorithm; there is no public accessor besides `export_results`).
"""
from __future__ import annotations
import contextlib
import io
import itertools
import json
import os
import re
import shutil
import tempfile
import warnings
from concurrent.futures import ProcessPoolExecutor
from pathlib import Path

from ..lean import run_driver_parallel, WORK

SUITE = "S-multi"
ASSUMPTIONS = [
    "algorithms are instances of distinct optimizer classes and tasks of distinct Task classes (names = class names key the columns, folders and files)",
    "one execute() per Multitask instance for the oracle (a second execute() appends n more tables to _df2; modelled and compared, not demanded)",
    "ProcessPoolExecutor.map yields one result per submitted trial, in order (modelled as List.map; trusted: concurrent.futures)",
    "the timestamp in exported file names is taken from the observed file name (14 digits) and handed to the model as observed",
    "modes entries are strings (or ModeSolver members, which the model identifies with their values); `modes` that is not a tuple (e.g. a list) is rejected by the code with ValueError: compared with the model, not demanded by the property",
    "for n == m >= 2 a tuple of that length is ambiguous in the documentation; the oracle accepts either reading, the model pins the code's (per algorithm)",
]

MODES = ("serial", "thread", "process")
INVALID = ("bad", "Serial", "", "threads")
ALG_NAMES = ["ScriptedAlpha", "ScriptedBeta", "ScriptedGamma", "ScriptedDelta"]
TASK_NAMES = ["ProblemP", "ProblemQ", "ProblemR", "ProblemS"]
EXT = {"csv": ".csv", "json": ".json", "dataframe": ".pkl"}
FILE_RE = re.compile(r"^tuning_best_fit_(.+)_(\d{14})(\.csv|\.json|\.pkl)$")

# ------------------------------------------------------------------------------------------------------------------
# scripted optimizers / tasks (module level: they are pickled into the trial pool)
_CLASSES = None


def classes():
    """build the scripted classes lazily (so that importing this module does not import pyvolutionary)."""
    global _CLASSES
    if _CLASSES is not None:
        return _CLASSES
    from pyvolutionary import Task, ContinuousVariable
    from pyvolutionary.abstract import OptimizationAbstract
    from pyvolutionary.models import OptimizationResult, Agent

    class _Scripted(OptimizationAbstract):
        def optimization_step(self):
            pass

        def set_config_parameters(self, parameters):
            pass

        def optimize(self, task, mode=None, workers=None):
            code = {"serial": 0.0, "thread": 1.0, "process": 2.0}
            mcode = -1.0 if mode is None else code.get(str(mode), -2.0)
            acode = float(ALG_NAMES.index(self.name)) if self.name in ALG_NAMES else -1.0
            tname = getattr(task, "name", None)
            tcode = float(TASK_NAMES.index(tname)) if tname in TASK_NAMES else -1.0
            wcode = -1.0 if workers is None else float(workers)
            log = os.environ.get("PVH_C20_LOG")
            if log:
                fd = os.open(log, os.O_WRONLY | os.O_APPEND | os.O_CREAT, 0o644)
                try:
                    os.write(fd, (json.dumps([acode, tcode, mcode, wcode]) + "\n").encode())
                finally:
                    os.close(fd)
            return OptimizationResult(rates=[acode, tcode, mcode, wcode],
                                      best_solution=Agent(position=[0.5], cost=tcode, fitness=1.0))

    class _Problem(Task):
        def objective_function(self, x):
            return 0.0

    g = globals()
    algs, tasks = {}, {}
    for nm in ALG_NAMES:
        c = type(nm, (_Scripted,), {"__module__": __name__, "__qualname__": nm})
        g[nm] = c
        algs[nm] = c
    for nm in TASK_NAMES:
        c = type(nm, (_Problem,), {"__module__": __name__, "__qualname__": nm})
        g[nm] = c
        tasks[nm] = c
    g["_Scripted"], g["_Problem"] = _Scripted, _Problem
    _Scripted.__qualname__, _Problem.__qualname__ = "_Scripted", "_Problem"
    _CLASSES = {"algs": algs, "tasks": tasks, "var": ContinuousVariable}
    return _CLASSES


def decode_rates(r):
    """[alg, task, mode, workers] codes -> the canonical call record the model renders."""
    try:
        a, t, m, w = [float(x) for x in r]
    except Exception:
        return {"undecodable": repr(r)}
    return {"alg": ALG_NAMES[int(a)] if 0 <= a < len(ALG_NAMES) else None,
            "task": TASK_NAMES[int(t)] if 0 <= t < len(TASK_NAMES) else None,
            "mode": {0.0: "serial", 1.0: "thread", 2.0: "process", -1.0: None}.get(m, "?"),
            "workers": None if w == -1.0 else int(w)}


# ------------------------------------------------------------------------------------------------------------------
# modes: JSON spec <-> Python value <-> model request
def py_entry(e):
    if isinstance(e, str):
        return e
    if "enum" in e:
        from pyvolutionary.enums import ModeSolver
        return ModeSolver(e["enum"])
    return eval(e["py"], {})


def model_entry(e):
    if isinstance(e, str):
        return e
    if "enum" in e:
        return e["enum"]
    return f"<{e['py']}>"          # never a ModeSolver value


def py_modes(spec_modes):
    if spec_modes is None:
        return None
    if isinstance(spec_modes, dict):       # {"list": [...]}: not a tuple
        return [py_entry(e) for e in spec_modes["list"]]
    return tuple(py_entry(e) for e in spec_modes)


def model_modes(spec_modes):
    if spec_modes is None:
        return None
    if isinstance(spec_modes, dict):
        return {"notTuple": True}
    return [model_entry(e) for e in spec_modes]


def readings(n, m, vals):
    """every table the documentation allows for a tuple of this length: {shape: n x m table}."""
    L = len(vals)
    out = {}
    if L == 1:
        out["one"] = [[vals[0]] * m for _ in range(n)]
    if L == n:
        out["per-algorithm"] = [[vals[i]] * m for i in range(n)]
    if L == m:
        out["per-task"] = [list(vals) for _ in range(n)]
    if L == n * m:
        out["per-pair"] = [[vals[i * m + j] for j in range(m)] for i in range(n)]
    return out


def code_shape(n, m, L):
    """the shape the code picks (branch order of __check_input__)."""
    return "one" if L == 1 else "per-algorithm" if L == n else "per-task" if L == m else "per-pair" if L == n * m else None


# ------------------------------------------------------------------------------------------------------------------
# running one case on the implementation (in a worker process)
def rerr_name(e):
    for base in type(e).__mro__:
        if base.__name__ in ("ValueError", "TypeError", "IndexError", "KeyError", "AttributeError"):
            return base.__name__
    return type(e).__name__


def render_tables(df2):
    out = []
    for df in df2:
        tb = []
        for col in df.columns:
            cells = []
            for cell in df[col].tolist():
                if isinstance(cell, dict) and set(cell) == {"id_trial", "solution", "problem_name"}:
                    cells.append({"id_trial": int(cell["id_trial"]), "problem_name": cell["problem_name"],
                                  "solution": decode_rates(getattr(cell["solution"], "rates", None))})
                else:
                    cells.append({"unexpected": repr(cell)[:200]})
            tb.append([str(col), cells])
        out.append(tb)
    return out


def collapse(entries):
    out = []
    for e in entries:
        if out and out[-1][0] == e:
            out[-1][1] += 1
        else:
            out.append([e, 1])
    return out


def read_back(path, fmt):
    """columns and row count of an exported file."""
    import pandas as pd
    try:
        if fmt == "csv":
            d = pd.read_csv(path)
            return [str(c) for c in d.columns], int(len(d))
        if fmt == "dataframe":
            d = pd.read_pickle(path)
            return [str(c) for c in d.columns], int(len(d))
        d = json.loads(Path(path).read_text())
        cols = list(d.keys())
        return cols, (len(next(iter(d.values()))) if cols else 0)
    except Exception as e:  # noqa
        return None, f"{type(e).__name__}: {e}"


def run_case(spec):
    """returns the observation dict for one case (runs in a worker process; never raises)."""
    warnings.filterwarnings("ignore")
    obs = {}
    try:
        from pyvolutionary import Multitask
        C = classes()
        algs = tuple(C["algs"][nm]() for nm in spec["algs"])
        tasks = tuple(C["tasks"][nm](variables=[C["var"](name="x", lower_bound=0.0, upper_bound=1.0)]) for nm in spec["tasks"])
        n, m = len(algs), len(tasks)
        try:
            mt = Multitask(algorithms=algs, tasks=tasks, modes=py_modes(spec["modes"]), n_workers=spec.get("workers"))
        except Exception as e:  # noqa
            obs["construct"] = {"err": rerr_name(e), "msg": str(e)[:200]}
            return obs
        stored = mt._modes
        obs["construct"] = {"modes": None if stored is None else [[str(x) for x in row] for row in stored]}
        try:
            obs["getmodes"] = [[str(mt.__get_mode__(i, j)) for j in range(m)] for i in range(n)]
        except Exception as e:  # noqa
            obs["getmodes"] = {"err": rerr_name(e), "msg": str(e)[:200]}
        if spec["kind"] != "execute":
            return obs
        tmp = Path(tempfile.mkdtemp(prefix="c20_", dir=str(WORK)))
        try:
            logf = tmp / "calls.log"
            os.environ["PVH_C20_LOG"] = str(logf)
            try:
                for _ in range(spec.get("times", 1)):
                    with contextlib.redirect_stdout(io.StringIO()):
                        mt.execute(n_trials=spec["n_trials"], n_jobs=spec.get("n_jobs", 2), debug=bool(spec.get("debug", False)))
                obs["execute"] = "ok"
            except Exception as e:  # noqa
                obs["execute"] = {"err": rerr_name(e), "msg": str(e)[:200]}
            finally:
                os.environ.pop("PVH_C20_LOG", None)
            lines = logf.read_text().splitlines() if logf.exists() else []
            obs["log"] = [decode_rates(json.loads(l)) for l in lines]
            df2 = mt._df2
            obs["shapes"] = [[int(d.shape[0]), int(d.shape[1])] for d in df2]
            obs["tables"] = render_tables(df2)
            # ---- export
            obs["exports"] = []
            for fmt, where in (spec.get("exports", []) if obs["execute"] == "ok" else []):
                base = tmp / f"exp_{fmt}_{where}"
                base.mkdir()
                rec = {"fmt": fmt, "where": where}
                cwd = os.getcwd()
                rec["save_path"] = None if where == "default" else "out"
                root = base
                try:
                    if where == "default":
                        os.chdir(base)
                        try:
                            mt.export_results(fmt)
                        finally:
                            os.chdir(cwd)
                    else:
                        mt.export_results(fmt, str(base / "out"))
                    rec["result"] = "ok"
                except Exception as e:  # noqa
                    rec["result"] = {"err": rerr_name(e), "msg": str(e)[:200]}
                dirs, files = [], []
                for r, ds, fs in os.walk(root):
                    rel = os.path.relpath(r, root)
                    for d in ds:
                        dirs.append(os.path.normpath(os.path.join(rel, d)))
                    for f in fs:
                        p = os.path.normpath(os.path.join(rel, f))
                        cols, nrows = read_back(os.path.join(r, f), fmt)
                        files.append({"path": p, "columns": cols, "rows": nrows})
                rec["dirs"] = sorted(dirs)
                rec["files"] = sorted(files, key=lambda x: x["path"])
                obs["exports"].append(rec)
        finally:
            shutil.rmtree(tmp, ignore_errors=True)
    except Exception as e:  # noqa  (harness trouble, reported as such)
        import traceback
        obs["harness_error"] = traceback.format_exc()[-1500:]
    return obs


# ------------------------------------------------------------------------------------------------------------------
# the model's view of a case
def model_requests(spec, obs):
    """[(request, implementation answer in the model's canonical form, tag)]"""
    n, m = len(spec["algs"]), len(spec["tasks"])
    mm = model_modes(spec["modes"])
    out = []
    c = obs.get("construct", {})
    out.append(({"op": "multi.construct", "n": n, "m": m, "modes": mm},
                {"err": c["err"]} if "err" in c else {"modes": c.get("modes")}, "construct"))
    if "getmodes" in obs:
        g = obs["getmodes"]
        out.append(({"op": "multi.getmodes", "n": n, "m": m, "modes": mm}, {"err": g["err"]} if isinstance(g, dict) else g, "getmodes"))
    if spec["kind"] == "execute" and "execute" in obs:
        if obs["execute"] == "ok":
            impl = {"log": [[e, k] for e, k in collapse(obs["log"])], "tables": obs["tables"]}
        else:
            impl = {"err": obs["execute"]["err"]}
        out.append(({"op": "multi.execute", "algs": spec["algs"], "tasks": spec["tasks"], "modes": mm, "workers": spec.get("workers"),
                     "n_trials": spec["n_trials"], "times": spec.get("times", 1)}, impl, "execute"))
        for rec in obs.get("exports", []):
            stamps = []
            for nm in spec["algs"]:
                st = [FILE_RE.match(os.path.basename(f["path"])) for f in rec["files"]]
                st = [x.group(2) for x in st if x and x.group(1) == nm]
                stamps.append(st[0] if len(st) == 1 else "?")
            if rec["result"] == "ok":
                base = "multitask" if rec["save_path"] is None else rec["save_path"]
                impl = {"dirs": [d for d in rec["dirs"] if d != base], "files": [f["path"] for f in rec["files"]],
                        "tables": [[f["path"], f["columns"]] for f in rec["files"]]}
            else:
                impl = {"err": rec["result"]["err"]}
            out.append(({"op": "multi.export", "save_as": rec["fmt"], "save_path": rec["save_path"], "names": spec["algs"], "stamps": stamps,
                         "n_tables": len(obs.get("tables", []))}, impl, "export:" + rec["fmt"]))
    return out


def canon_export_answer(ans, obs):
    """model answer of multi.export -> the same shape as the implementation side (dirs, files, which table in which file)."""
    if isinstance(ans, dict):
        return ans
    tables = obs.get("tables", [])
    return {"dirs": sorted(os.path.normpath(e["dir"]) for e in ans),
            "files": sorted(os.path.normpath(e["file"]) for e in ans),
            "tables": sorted([os.path.normpath(e["file"]), [c for c, _ in tables[e["table"]]] if e["table"] < len(tables) else None] for e in ans)}


# ------------------------------------------------------------------------------------------------------------------
# the oracle: exactly what the property states
def oracle(spec, obs):
    """list of (signature, what)."""
    fails = []
    n, m = len(spec["algs"]), len(spec["tasks"])
    sm = spec["modes"]
    if isinstance(sm, dict):
        return fails                      # not a tuple: outside the documented shapes
    c = obs.get("construct", {})
    if sm is None:
        shape = "none"
        if "err" in c:
            return [("C20/Multitask.__init__/modes-None-rejected", f"modes=None raised {c}")]
        acceptable = None
    else:
        vals = [model_entry(e) for e in sm]
        rd = readings(n, m, vals)
        if not rd:
            return fails                  # undocumented length: nothing demanded
        shape = code_shape(n, m, len(vals))
        any_invalid = any(v not in MODES for v in vals)
        if any_invalid:
            if "err" not in c:
                fails.append(("C20/Multitask.__init__/unknown-mode-accepted", f"modes={vals} (n={n}, m={m}) was accepted at construction"))
            return fails
        if "err" in c:
            return [(f"C20/Multitask.__init__/valid-modes-rejected/{shape}",
                     f"modes={vals} (n={n} algorithms, m={m} tasks: one mode {shape}) raised {c['err']}: {c.get('msg')}")]
        acceptable = list(rd.values())
    # ---- __get_mode__ gives the designated mode
    g = obs.get("getmodes")
    if isinstance(g, dict):
        fails.append((f"C20/Multitask.__get_mode__/raises-{g['err']}/{shape}", f"{g}"))
        designated = None
    else:
        if acceptable is None:
            designated = [["serial"] * m for _ in range(n)]
            if g != designated:
                fails.append(("C20/Multitask.__get_mode__/not-designated/none", f"modes=None: {g}"))
        else:
            if g not in acceptable:
                fails.append((f"C20/Multitask.__get_mode__/not-designated/{shape}", f"modes={sm}: __get_mode__ table {g}, documented {acceptable}"))
                designated = None
            else:
                designated = g
    if spec["kind"] != "execute" or spec.get("times", 1) != 1:
        return fails
    ex = obs.get("execute")
    if ex != "ok":
        fails.append((f"C20/Multitask.execute/raises-{ex['err'] if isinstance(ex, dict) else ex}", f"{ex}"))
        return fails
    k = spec["n_trials"]
    tables = obs["tables"]
    # one table per algorithm
    if len(tables) != n:
        fails.append(("C20/Multitask.execute/not-one-table-per-algorithm", f"{len(tables)} tables for {n} algorithms"))
        return fails
    # every pair exactly n_trials calls, with the designated mode
    log = obs["log"]
    for i, an in enumerate(spec["algs"]):
        for j, tn in enumerate(spec["tasks"]):
            calls = [e for e in log if e.get("alg") == an and e.get("task") == tn]
            if len(calls) != k:
                fails.append(("C20/Multitask.execute/pair-not-run-n_trials-times", f"({an}, {tn}) was optimized {len(calls)} times, n_trials={k}"))
            if designated is not None:
                want = designated[i][j]
                ok_modes = {want, None} if sm is None else {want}
                bad = [e for e in calls if e.get("mode") not in ok_modes]
                if bad:
                    fails.append((f"C20/Multitask.execute/wrong-mode/{shape}", f"({an}, {tn}) ran with mode {bad[0].get('mode')}, designated {want}"))
    if len(log) != n * m * k:
        fails.append(("C20/Multitask.execute/extra-or-missing-optimize-calls", f"{len(log)} optimize calls, expected n*m*n_trials = {n * m * k}"))
    # table shape: a column per task, a row per trial; table <-> algorithm
    seen_algs = []
    for ti, tb in enumerate(tables):
        shp = obs["shapes"][ti]
        if shp != [k, m]:
            fails.append(("C20/Multitask.execute/table-shape", f"table {ti} has shape {shp}, expected rows=n_trials={k}, columns=tasks={m}"))
            continue
        col_tasks, tb_algs = [], set()
        for col, cells in tb:
            if any("unexpected" in cl for cl in cells):
                fails.append(("C20/Multitask.execute/cell-content", f"table {ti} column {col}: {cells[:1]}"))
                continue
            tb_algs |= {cl["solution"].get("alg") for cl in cells}
            tk = {cl["solution"].get("task") for cl in cells} | {cl["problem_name"] for cl in cells}
            col_tasks.append(sorted(tk, key=str))
            if sorted(cl["id_trial"] for cl in cells) != list(range(1, k + 1)):
                fails.append(("C20/Multitask.execute/rows-are-not-the-trials", f"table {ti} column {col}: id_trial {[cl['id_trial'] for cl in cells]}"))
            if designated is not None and len(tk) == 1 and len(tb_algs) == 1:
                an, tn = next(iter(tb_algs)), next(iter(tk))
                if an in spec["algs"] and tn in spec["tasks"]:
                    want = designated[spec["algs"].index(an)][spec["tasks"].index(tn)]
                    ok_modes = {want, None} if sm is None else {want}
                    if any(cl["solution"].get("mode") not in ok_modes for cl in cells):
                        fails.append((f"C20/Multitask.execute/wrong-mode/{shape}", f"table {ti} column {col}: modes {[cl['solution'].get('mode') for cl in cells]}, designated {want}"))
        if any(len(t) != 1 for t in col_tasks) or sorted(t[0] for t in col_tasks if len(t) == 1) != sorted(spec["tasks"]):
            fails.append(("C20/Multitask.execute/columns-are-not-the-tasks", f"table {ti}: columns hold results of tasks {col_tasks}, tasks are {spec['tasks']}"))
        if len(tb_algs) != 1:
            fails.append(("C20/Multitask.execute/table-mixes-algorithms", f"table {ti} holds results of {sorted(map(str, tb_algs))}"))
        else:
            seen_algs.append(next(iter(tb_algs)))
    if len(seen_algs) == n and sorted(map(str, seen_algs)) != sorted(spec["algs"]):
        fails.append(("C20/Multitask.execute/not-one-table-per-algorithm", f"tables belong to {seen_algs}, algorithms are {spec['algs']}"))
    # ---- export: one file per algorithm under <save_path>/<algorithm name>/
    alg_cols = {}
    for tb in tables:
        a = {cl["solution"].get("alg") for _, cells in tb for cl in cells if "solution" in cl}
        if len(a) == 1:
            alg_cols[next(iter(a))] = [c for c, _ in tb]
    for rec in obs.get("exports", []):
        fmt = rec["fmt"]
        if rec["result"] != "ok":
            fails.append((f"C20/Multitask.export_results/raises-{rec['result']['err']}", f"export_results({fmt!r}) raised {rec['result']}"))
            continue
        base = "multitask" if rec["save_path"] is None else rec["save_path"]
        for an in spec["algs"]:
            folder = os.path.normpath(os.path.join(base, an))
            mine = [f for f in rec["files"] if os.path.dirname(f["path"]) == folder]
            if len(mine) != 1:
                fails.append(("C20/Multitask.export_results/not-one-file-under-save_path-algorithm-name",
                              f"export_results({fmt!r}): {len(mine)} files directly in <save_path>/{an}/; files written: {[f['path'] for f in rec['files']]}"))
                continue
            f = mine[0]
            if not f["path"].endswith(EXT[fmt]):
                fails.append(("C20/Multitask.export_results/wrong-file-type", f"{f['path']} for export type {fmt}"))
            if an in alg_cols and (f["columns"] != alg_cols[an] or f["rows"] != k):
                fails.append(("C20/Multitask.export_results/file-is-not-the-algorithms-table",
                              f"{f['path']}: columns {f['columns']} rows {f['rows']}, table of {an}: columns {alg_cols[an]} rows {k}"))
        if len(rec["files"]) != n:
            fails.append(("C20/Multitask.export_results/not-one-file-per-algorithm", f"export_results({fmt!r}) wrote {[f['path'] for f in rec['files']]} for {n} algorithms"))
    return fails


# ------------------------------------------------------------------------------------------------------------------
# generation
def names_for(rng, n, pool):
    return rng.sample(pool, n)


def assign(rng, L):
    """L valid mode values using all three values when L >= 3, never constant when L >= 2."""
    while True:
        v = [rng.choice(MODES) for _ in range(L)]
        if L >= 3 and len(set(v)) < 3:
            continue
        if L == 2 and v[0] == v[1]:
            continue
        return v


def gen_construct_cases(ctx):
    rng = ctx.rng
    alphabet = list(MODES) + ["bad"]
    cases = []
    for n in (1, 2, 3):
        for m in (1, 2, 3):
            algs, tasks = names_for(rng, n, ALG_NAMES), names_for(rng, m, TASK_NAMES)
            base = {"kind": "construct", "algs": algs, "tasks": tasks}
            cases.append({**base, "modes": None})
            cases.append({**base, "modes": {"list": ["serial"]}})
            for L in range(0, n * m + 2):
                if len(alphabet) ** L <= 256:
                    tuples = [list(t) for t in itertools.product(alphabet, repeat=L)]
                else:
                    tuples = [[v] * L for v in alphabet]
                    tuples += [assign(rng, L) for _ in range(20 if not ctx.thorough else 200)]
                    for pos in range(L):            # one unknown mode at each position
                        t = assign(rng, L)
                        t[pos] = rng.choice(INVALID)
                        tuples.append(t)
                    tuples += [[rng.choice(alphabet) for _ in range(L)] for _ in range(20 if not ctx.thorough else 300)]
                for t in tuples:
                    cases.append({**base, "modes": t})
            # other spellings of invalid / valid entries
            for L in sorted({1, n, m, n * m}):
                for _ in range(3 if not ctx.thorough else 20):
                    t = assign(rng, L)
                    t[rng.randrange(L)] = rng.choice(list(INVALID) + [{"py": "3"}, {"py": "None"}])
                    cases.append({**base, "modes": t})
                    t2 = [({"enum": v} if rng.random() < 0.5 else v) for v in assign(rng, L)]
                    cases.append({**base, "modes": t2})
    return cases


def gen_execute_cases(ctx):
    rng = ctx.rng
    cases = []
    reps = 2 if not ctx.thorough else 8
    for rep in range(reps):
        for n in (1, 2, 3):
            for m in (1, 2, 3):
                variants = [("none", None)]
                variants += [("one", [v]) for v in MODES]
                variants.append(("per-algorithm", assign(rng, n)))
                variants.append(("per-task", assign(rng, m)))
                variants.append(("per-pair", assign(rng, n * m)))
                for label, modes in variants:
                    for k in ((1, 2, 3) if not ctx.thorough else (1, 2, 3, 5)):
                        fmts = ["csv", "json", "dataframe"]
                        rng.shuffle(fmts)
                        cases.append({"kind": "execute", "label": label, "algs": names_for(rng, n, ALG_NAMES), "tasks": names_for(rng, m, TASK_NAMES),
                                      "modes": modes, "workers": rng.choice([None, 1, 2, 3, 4]), "n_trials": k,
                                      "n_jobs": rng.choice([2, 2, 1, 3]), "times": 1, "debug": rng.random() < 0.3,      # verbose logging must not change what is computed
                                      "exports": [[f, "default" if rng.random() < 0.25 else "path"] for f in fmts]})
    # a second execute() on the same instance (compared with the model only)
    for _ in range(3 if not ctx.thorough else 9):
        n, m = rng.choice([1, 2]), rng.choice([1, 2, 3])
        cases.append({"kind": "execute", "label": "re-execute", "algs": names_for(rng, n, ALG_NAMES), "tasks": names_for(rng, m, TASK_NAMES),
                      "modes": assign(rng, m), "workers": None, "n_trials": rng.choice([1, 2]), "n_jobs": 2, "times": 2,
                      "exports": [["csv", "path"]]})
    return cases


def run(ctx):
    ctx.prove(["PvModel.Props.C20", "PvModel.Props.R20", "PvModel.Props.T20"])
    ctx.suites_run.append(SUITE)
    ctx.rule("construction: for every (n, m) in {1,2,3}^2: None, a list, every tuple of length 0..n*m+1 over {serial, thread, process, bad} "
             "(exhaustive up to 256 tuples per length, else constant tuples + random valid assignments + one unknown mode at each position + random), "
             "other spellings (Serial, '', threads, 3, None, ModeSolver members); execution on the real Multitask with scripted optimizers of distinct classes "
             "and tasks of distinct classes: every (n, m) x {None, one value x 3 modes, per algorithm, per task, per pair (random assignments using all three "
             "modes)} x n_trials in {1,2,3} (2 repetitions; thorough: 8 repetitions, also n_trials 5), n_workers in {None,1..4}, all three export formats per case into "
             ".work/<tmp> (explicit save_path or the default 'multitask'); a few second execute() calls; trivial = none")
    cons = gen_construct_cases(ctx)
    execs = gen_execute_cases(ctx)
    # ---- run the implementation
    classes()
    cons_obs = [run_case(s) for s in cons]
    WORK.mkdir(exist_ok=True)
    jobs = max(2, min(12, (os.cpu_count() or 4) - 2))
    with ProcessPoolExecutor(jobs) as ex:
        exec_obs = list(ex.map(run_case, execs, chunksize=1))
    for leftover in WORK.glob("c20_*"):
        shutil.rmtree(leftover, ignore_errors=True)
    # ---- model
    reqs, metas = [], []
    for spec, obs in list(zip(cons, cons_obs)) + list(zip(execs, exec_obs)):
        if "harness_error" in obs:
            raise RuntimeError("harness error inside a case: " + obs["harness_error"])
        for req, impl, tag in model_requests(spec, obs):
            reqs.append(req)
            metas.append((spec, obs, impl, tag))
    answers = run_driver_parallel(reqs)
    for (spec, obs, impl, tag), req, ans in zip(metas, reqs, answers):
        if tag.startswith("export"):
            ans = canon_export_answer(ans, obs)
            if "dirs" in impl:
                impl = {"dirs": sorted(impl["dirs"]), "files": sorted(impl["files"]), "tables": sorted(impl["tables"])}
        n, m = len(spec["algs"]), len(spec["tasks"])
        L = None if not isinstance(spec["modes"], list) else len(spec["modes"])
        ctx.case((tag, json.dumps(spec, sort_keys=True, default=str)), kind=f"{spec['kind']}:{tag}:n{n}m{m}" if tag in ("construct", "execute") else f"{tag}")
        if tag == "construct":
            ctx.dist[f"shape:{(code_shape(n, m, L) or 'undocumented-length') if L is not None else ('none' if spec['modes'] is None else 'not-a-tuple')}"] += 1
            ctx.dist[f"construct:{'err:' + impl['err'] if 'err' in impl else 'ok'}"] += 1
        if ans != impl:
            ctx.disagree(SUITE, {"spec": spec, "op": req["op"]}, ans, impl)
        if tag in ("execute",):
            ctx.sample({"case": {k: spec[k] for k in ("algs", "tasks", "modes", "workers", "n_trials")}, "implementation_log": impl.get("log") if isinstance(impl, dict) else impl,
                        "model_log": ans.get("log") if isinstance(ans, dict) else ans}, limit=4)
    # ---- oracle
    for spec, obs in list(zip(cons, cons_obs)) + list(zip(execs, exec_obs)):
        for sig, what in oracle(spec, obs):
            ctx.fail(sig, what, SUITE, spec)
    ctx.extra["execute_cases"] = len(execs)
    ctx.extra["construct_cases"] = len(cons)
    ctx.extra["trial_pools"] = sum(len(s["algs"]) * len(s["tasks"]) * s.get("times", 1) for s in execs)


def replay(case):
    print(json.dumps(case, indent=1, default=str))
    spec = case["case"]
    WORK.mkdir(exist_ok=True)
    obs = run_case(spec)
    print(json.dumps({k: v for k, v in obs.items() if k != "tables"}, indent=1, default=str)[:4000])
    fails = oracle(spec, obs)
    for sig, what in fails:
        print("still fails:", sig, "--", what)
    return 1 if fails else 0
