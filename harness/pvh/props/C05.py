"""C05 — the user's objective is only ever evaluated inside the search space (S-trace with an instrumented objective)."""
from __future__ import annotations
from .. import trace, jobs, oracles, optimizers
from ..par import pmap
from . import C01

ASSUMPTIONS = C01.ASSUMPTIONS[:2] + ["in process mode the instrumented objective appends its argument to a file under .work (O_APPEND), so worker-side calls are observed too"]
MODULES = ["PvModel.Props.C05", "PvModel.Accept", "PvModel.Props.T01", "PvModel.Props.T05", "PvModel.Props.R13", "PvModel.Props.R02", "PvModel.Props.T13", "PvModel.Props.T14", "PvModel.Props.R14"]


def run(ctx):
    ctx.prove(MODULES)
    ctx.suites_run.append(oracles.SUITE)
    n = 10 if not ctx.thorough else 60
    js = jobs.make_jobs(ctx.rng, optimizers.names(), ["cont-zero", "cont-zero", "cont-onesided", "cont-tiny", "cont-sym", "cont", "cont-huge", "disc", "binary", "mixed", "perm"], n,
                        modes=("serial", "serial", "thread", "process") if not ctx.thorough else ("serial", "thread", "process"), max_cycles_choices=(1, 2, 3, 4), multi=True)
    ctx.rule("all exported optimizers × tasks with zero-touching, one-sided, tiny and huge bounds first (where 0/0 and overflow arise) plus integer-coded pairs (a third of them weighted multi-objective) × seeds × serial/thread/process; "
             "a sixth of the continuous tasks derived from an already used, wider task; EVERY call of objective_function (also for discarded candidates, also in workers) is recorded and judged by the Lean membership predicate; a case = one run; non-trivial = ≥ 10 objective calls")
    # a sixth of the continuous tasks are derived (model_copy(update=variables)) from an already USED, wider task: the guard in front of the objective
    # must clip to the space the task declares now, not to the one it was first used with
    for j in ctx.rng.sample(js, len(js) // 6):
        if j["kind"] in ("cont", "cont-sym", "cont-zero", "cont-onesided") and len(j["specs"]) == 1 and j["specs"][0].get("k") == "contMulti":
            sp = j["specs"][0]
            j["derive_from"] = [{"k": "contMulti", "lbs": [lb - 3 * (ub - lb) for lb, ub in zip(sp["lbs"], sp["ubs"])], "ubs": [ub + 3 * (ub - lb) for lb, ub in zip(sp["lbs"], sp["ubs"])]}]
            j["kind"] = j["kind"] + "+derived"
    results = pmap(trace.run_traced, js)
    for r in results:
        job = r["job"]
        ctx.case(repr(oracles.job_key(job)), nontrivial=len(r.get("calls", [])) >= 10, kind=f"{job['kind']}:{job['mode']}:{'ok' if 'result' in r else 'raised'}")
    oracles.check_c05(ctx, results)
    oracles.check_init_correspondence(ctx, results)
    for r in results[:3]:
        ctx.sample({"job": oracles.job_key(r["job"]), "objective_calls": len(r.get("calls", [])), "first_call": trace.dec_pos(r["calls"][0]) if r.get("calls") else None})


replay = C01.replay
