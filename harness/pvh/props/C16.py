"""C16 — selection helpers return exactly the best / worst members asked for (S-select)."""
from __future__ import annotations
import itertools
import math

from pyvolutionary import helpers
from pyvolutionary.enums import TaskType
from pyvolutionary.models import BaseOptimizationConfig
from ..canon import bits, rerr
from ..scripted import Scripted, make_agent, script_task
from .C13 import Cases, call

SUITE = "S-select"
ASSUMPTIONS = [
    "costs are NaN-free (every comparison with NaN is false; a NaN cost leaves the model and is reported by the trace suites)",
    "np.argsort's order among equal costs is unspecified: the `_indexes` variants are compared relationally (same cost sequence, valid distinct indices)",
    "CPython's list.sort is stable, also with reverse=True",
]
ALPHABET = [-math.inf, -1.0, 0.0, 0.0, 2.5, math.inf]
DIRS = {"min": TaskType.MIN, "max": TaskType.MAX}


def tags(agents):
    return [int(a.position[0]) for a in agents]


def pop_json(costs, base=0):
    return [{"c": bits(c), "t": base + i} for i, c in enumerate(costs)]


def better(d, x, y):
    return x < y if d == "min" else x > y


def check_selection(ctx, d, costs, n, got, kind, meta):
    """the property's own oracle on the implementation's answer: n members, ordered, separated."""
    idx = tags(got)
    sig = f"C16/{kind}"
    if len(idx) != n or len(set(idx)) != len(idx) or any(i < 0 or i >= len(costs) for i in idx):
        ctx.fail(sig + "/not-n-members", f"{idx} of {costs} n={n}", SUITE, meta)
        return
    sel = [costs[i] for i in idx]
    rest = [costs[i] for i in range(len(costs)) if i not in idx]
    if any(better(d, sel[k + 1], sel[k]) for k in range(len(sel) - 1)):
        ctx.fail(sig + "/not-ordered", f"{sel}", SUITE, meta)
    if kind.startswith("best") and any(better(d, r, s) for r in rest for s in sel):
        ctx.fail(sig + "/omitted-agent-strictly-better", f"kept {sel} dropped {rest}", SUITE, meta)
    if kind.startswith("worst") and any(better(d, s, r) for r in rest for s in sel):
        ctx.fail(sig + "/omitted-agent-strictly-worse", f"kept {sel} dropped {rest}", SUITE, meta)


def run(ctx):
    ctx.prove(["PvModel.Props.C16", "PvModel.Props.R16", "PvModel.Props.R10"])
    run_suite(ctx)


def run_suite(ctx, only_best=False):
    ctx.suites_run.append(SUITE)
    rng = ctx.rng
    ctx.rule("populations: all cost vectors of length 1..L over the alphabet {-inf,-1,0,0,2.5,+inf} (ties included; L=4 quick, 5 thorough plus a sample of 2500 of length 6; "
             "multisets enumerated with every order) plus random sizes up to 200, plus vectors over pools of neighbouring doubles (0 / 1e-17 / 2e-17, ±5e-324, 1 ± 1 ulp, −1 ± 1 ulp, 1e16 + {0,2,4}, 1e308 / next / inf, 0.1+0.2 / 0.3); × all n in 0..size × both directions × every helper and combinator; "
             "after a subset of cases the caller uses up a returned list (reverse + pop) and asks again: same answer; non-trivial = population of size ≥ 2 (size-1 cases counted as trivial); distinct by (helper, direction, cost vector, n)")
    L = 5 if ctx.thorough else 4
    pops = []
    for k in range(1, L + 1):
        for combo in itertools.product(sorted(set(ALPHABET)), repeat=k):
            pops.append(list(combo))
    if ctx.thorough:       # length 6: a seeded sample of the 15 625 vectors (the exhaustive set made the batch of model requests too large to hold)
        six = list(itertools.product(sorted(set(ALPHABET)), repeat=6))
        pops.extend(list(c) for c in rng.sample(six, 2500))
    for _ in range(40 if not ctx.thorough else 400):
        k = rng.choice([7, 10, 25, 50, 200])
        pops.append([rng.choice([rng.uniform(-5, 5), float(rng.randrange(-3, 4)), math.inf, -math.inf]) for _ in range(k)])
    # numerically adversarial neighbours: distinct doubles that any lossy ranking key (a fitness, a rounded or shifted cost) would merge
    na = math.nextafter
    for pool in ([0.0, 1e-17, 2e-17, 3e-17], [5e-324, 0.0, -5e-324, 1e-300], [1.0, na(1.0, 2.0), na(1.0, 0.0), na(na(1.0, 2.0), 2.0)],
                 [-1.0, na(-1.0, -2.0), na(-1.0, 0.0), -1.0], [1e16, 1e16 + 2, 1e16 + 4, -1e16 - 2], [1e308, na(1e308, math.inf), -1e308, math.inf],
                 [0.1 + 0.2, 0.3, na(0.3, 0.0), 0.30000000000000004]):
        for k in (2, 3):
            pops.extend(list(c) for c in itertools.product(pool, repeat=k))
        for _ in range(6 if not ctx.thorough else 40):
            pops.append([rng.choice(pool) for _ in range(rng.choice([4, 5, 6, 9]))])
    C = Cases(ctx)
    for costs in pops:
        agents = [make_agent(i, c) for i, c in enumerate(costs)]
        ids = [id(a) for a in agents]
        pj = pop_json(costs)
        nontriv = len(costs) >= 2
        ns = range(0, len(costs) + 1) if len(costs) <= 4 else sorted({0, 1, 2, len(costs) // 2, len(costs) - 1, len(costs)})
        for d, tt in DIRS.items():
            base = {"costs": repr(costs), "dir": d}
            # sort_by_cost
            ok, r = call(helpers.sort_by_cost, agents, tt)
            C.add({"op": "sel.sort", "pop": pj, "dir": d}, tags(r) if ok else rerr(r), {**base, "op": "sort", "nt": nontriv})
            ok, r = call(helpers.sort_by_cost_indexes, agents, tt)
            if ok:
                seq = [costs[i] for i in r]
                if sorted(r) != list(range(len(costs))) or any(better(d, seq[k + 1], seq[k]) for k in range(len(seq) - 1)):
                    ctx.fail("C16/sort_by_cost_indexes/not-a-sorting-permutation", f"{r} for {costs}", SUITE, base)
                if len(set(costs)) == len(costs):
                    C.add({"op": "sel.sortIdx", "pop": pj, "dir": d}, [int(i) for i in r], {**base, "op": "sortIdx", "nt": nontriv})
                else:
                    ctx.case(("sortIdx-rel", d, tuple(costs)), nontrivial=nontriv, kind="sortIdx-relational")
            else:
                ctx.fail("C16/sort_by_cost_indexes/raises", repr(r), SUITE, base)
            # what a helper returns belongs to the caller: using it up (pop / reverse / clear) must not change what ANY later call answers
            # (a ranking memoised across calls and handed out by reference would)
            if len(costs) >= 2 and (len(costs) <= 3 or rng.random() < 0.05):
                for name, f, args in (("sort_by_cost_indexes", helpers.sort_by_cost_indexes, (tt,)), ("sort_by_cost", helpers.sort_by_cost, (tt,)),
                                      ("best_agents_indexes", helpers.best_agents_indexes, (len(costs), tt)), ("worst_agents", helpers.worst_agents, (len(costs), tt))):
                    ok1, r1 = call(f, agents, *args)
                    if not ok1 or not isinstance(r1, list):
                        continue
                    snap = [x if isinstance(x, int) else id(x) for x in r1]
                    r1.reverse()
                    if r1:
                        r1.pop()
                    ok2, r2 = call(f, agents, *args)
                    again = [x if isinstance(x, int) else id(x) for x in r2] if ok2 and isinstance(r2, list) else None
                    ctx.case(("fresh-result", name, d, tuple(costs)), nontrivial=True, kind="result-belongs-to-caller")
                    if again != snap:
                        ctx.fail(f"C16/{name}/answer-changes-after-the-caller-used-up-an-earlier-result", f"first {snap!r}, after consuming it {again!r} on costs {costs}", SUITE,
                                 {**base, "helper": name})
                    others_ok, rb = call(helpers.best_agents, agents, 1, tt)
                    if others_ok:
                        check_selection(ctx, d, costs, 1, rb, "best_agents", {**base, "n": 1, "after": f"consuming a result of {name}"})
            for n in ns:
                meta = {**base, "n": n, "nt": nontriv}
                for name, f, op in (("best_agents", helpers.best_agents, "sel.best"), ("worst_agents", helpers.worst_agents, "sel.worst")):
                    ok, r = call(f, agents, n, tt)
                    C.add({"op": op, "pop": pj, "dir": d, "n": n}, tags(r) if ok else rerr(r), {**meta, "op": name})
                    if ok:
                        check_selection(ctx, d, costs, n, r, name, meta)
                    else:
                        ctx.fail(f"C16/{name}/raises", repr(r), SUITE, meta)
                for name, f, g in (("best_agents_indexes", helpers.best_agents_indexes, helpers.best_agents),
                                   ("worst_agents_indexes", helpers.worst_agents_indexes, helpers.worst_agents)):
                    ok, r = call(f, agents, n, tt)
                    ok2, r2 = call(g, agents, n, tt)
                    ctx.case((name, d, tuple(costs), n), nontrivial=nontriv, kind=name)
                    if not ok or not ok2 or len(set(r)) != len(r) or any(i < 0 or i >= len(costs) for i in r) or \
                            [costs[i] for i in r] != [a.cost for a in r2]:
                        ctx.fail(f"C16/{name}/different-costs-than-agent-variant", f"{r} vs {tags(r2) if ok2 else r2} on {costs}", SUITE, meta)
                # special_agents with both, only best, only worst
                # both counts are independent: also overlapping requests (n_best + n_worst > size, up to both = size)
                for nb, nw in (((n, len(costs) - n), (n, None), (None, n), (n, len(costs)), (len(costs), n), (n, n), (n, min(len(costs), len(costs) - n + 1)))
                               if len(costs) <= 4 else ((n, len(costs) - n), (n, None), (None, n), (n, n))):
                    ok, r = call(helpers.special_agents, agents, nb, nw, tt)
                    C.add({"op": "sel.special", "pop": pj, "dir": d, "nb": nb, "nw": nw},
                          [tags(r[0]), tags(r[1])] if ok else rerr(r), {**meta, "op": "special_agents", "nb": nb, "nw": nw})
                    if ok:
                        if nb is not None:
                            check_selection(ctx, d, costs, nb, r[0], "best:special_agents", meta)
                        if nw is not None:
                            check_selection(ctx, d, costs, nw, r[1], "worst:special_agents", meta)
                if d == "min":
                    ok, r = call(helpers.sort_and_trim, agents, n)
                    C.add({"op": "sel.trim", "pop": pj, "n": n}, tags(r) if ok else rerr(r), {**meta, "op": "sort_and_trim"})
                    if ok:
                        check_selection(ctx, "min", costs, n, r, "best:sort_and_trim", meta)
            for name, f, op in (("best_agent", helpers.best_agent, "sel.best1"), ("worst_agent", helpers.worst_agent, "sel.worst1")):
                ok, r = call(f, agents, tt)
                C.add({"op": op, "pop": pj, "dir": d}, tags([r])[0] if ok else rerr(r), {**base, "op": name, "nt": nontriv})
                if ok:
                    check_selection(ctx, d, costs, 1, [r], name, base)
                ok, r = call(getattr(helpers, name + "_index"), agents, tt)
                if not ok or not (0 <= r < len(costs)) or any((better(d, c, costs[r]) if name == "best_agent" else better(d, costs[r], c)) for c in costs):
                    ctx.fail(f"C16/{name}_index/not-optimal", f"{r} on {costs}", SUITE, base)
        ok, r = call(helpers.special_agents, agents, None, None)
        C.add({"op": "sel.special", "pop": pj, "dir": "min", "nb": None, "nw": None}, rerr(r) if not ok else "returned", {"costs": repr(costs), "op": "special_agents-none", "nt": False})
        # purity: the caller's list holds the same objects in the same order, with the same costs
        if [id(a) for a in agents] != ids or [a.cost for a in agents] != costs and not any(math.isnan(c) for c in costs):
            ctx.fail("C16/helpers/mutates-or-reorders-callers-list", f"{costs}", SUITE, {"costs": repr(costs)})
    if only_best:
        flush(ctx, C)
        return
    # ---------------- combinators of abstract.py on a bare scripted optimizer ----------------
    small = [p for p in pops if len(p) <= 3]
    pairs = rng.sample(list(itertools.product(small, small)), 40000 if ctx.thorough else 1500)
    for _ in range(30):
        k = rng.randrange(4, 30)
        pairs.append(([rng.uniform(-5, 5) for _ in range(k)], [float(rng.randrange(-3, 4)) for _ in range(rng.choice([k, k, k + 2, max(1, k - 1)]))]))
    task = script_task()
    for old, new in pairs:
        for ps in sorted({1, len(old), len(old) + 1, len(old) + len(new)}):
            opt = Scripted(BaseOptimizationConfig(population_size=ps, max_cycles=1))
            opt._task = task
            A = [make_agent(i, c) for i, c in enumerate(old)]
            B = [make_agent(100 + i, c) for i, c in enumerate(new)]
            pj, nj = pop_json(old), pop_json(new, 100)
            meta = {"old": repr(old), "new": repr(new), "ps": ps, "nt": True}
            # _greedy_select_population
            opt._population = list(A)
            ok, r = call(opt._greedy_select_population, list(B))
            impl = tags(opt._population) if ok else rerr(r)
            C.add({"op": "sel.greedyPop", "pop": pj, "new": nj}, impl, {**meta, "op": "_greedy_select_population"})
            if ok:
                so, sn = sorted(old), sorted(new)
                got = [a.cost for a in opt._population]
                exp = [n_ if n_ < o else o for o, n_ in zip(so, sn)]
                if len(got) != len(old) or got != exp:
                    ctx.fail("C16/_greedy_select_population/not-elementwise-greedy", f"{got} expected {exp}", SUITE, meta)
            elif len(new) >= len(old):
                ctx.fail("C16/_greedy_select_population/raises", repr(r), SUITE, meta)
            # _extend_and_trim_population
            opt._population = list(A)
            ok, r = call(opt._extend_and_trim_population, list(B))
            C.add({"op": "sel.extendTrim", "pop": pj, "new": nj, "n": ps}, tags(opt._population) if ok else rerr(r), {**meta, "op": "_extend_and_trim_population"})
            if ok:
                got = [a.cost for a in opt._population]
                if got != sorted(old + new)[:ps]:
                    ctx.fail("C16/_extend_and_trim_population/not-the-cheapest", f"{got}", SUITE, meta)
            # _replace_and_trim_population
            opt._population = list(A)
            ok, r = call(opt._replace_and_trim_population, list(B))
            C.add({"op": "sel.replaceTrim", "pop": pj, "new": nj, "n": ps}, tags(opt._population) if ok else rerr(r), {**meta, "op": "_replace_and_trim_population"})
            if ok and [a.cost for a in opt._population] != sorted(new)[:ps]:
                ctx.fail("C16/_replace_and_trim_population/not-the-cheapest", f"{[a.cost for a in opt._population]}", SUITE, meta)
        # challengers that are equal, field for field, to an incumbent or to each other (elites put back as copies, a solution found twice):
        # they are agents like any other — the trimmed population is still the cheapest `population_size` of incumbents + challengers
        if old and (len(old) <= 2 or rng.random() < 0.15):
            for ps in sorted({len(old), len(old) + 1}):
                opt = Scripted(BaseOptimizationConfig(population_size=ps, max_cycles=1))
                opt._task = task
                A = [make_agent(i, c) for i, c in enumerate(old)]
                k = min(range(len(old)), key=lambda i: old[i])
                B = [make_agent(100 + i, c) for i, c in enumerate(new)] + [A[k].model_copy(), A[k].model_copy(deep=True)]
                if new:
                    B.append(make_agent(100, new[0]))
                opt._population = list(A)
                ok, r = call(opt._extend_and_trim_population, list(B))
                ctx.case(("extendTrim-equal-agents", tuple(old), tuple(new), ps), nontrivial=True, kind="_extend_and_trim_population:challengers-equal-to-incumbents")
                exp = sorted(old + [b.cost for b in B])[:ps]
                if not ok:
                    ctx.fail("C16/_extend_and_trim_population/raises", repr(r), SUITE, {"old": repr(old), "new": repr(new), "ps": ps, "equal_agents": True})
                elif [a.cost for a in opt._population] != exp:
                    ctx.fail("C16/_extend_and_trim_population/not-the-cheapest", f"{[a.cost for a in opt._population]} expected {exp} (challengers include copies of the cheapest incumbent)", SUITE,
                             {"old": repr(old), "new": repr(new), "ps": ps, "equal_agents": True})
        # _generate_group_population: slices + residual group (copies of the agents; the population itself untouched)
        for ng in (1, 2, 3):
            for na in sorted({1, 2, max(1, len(old) // ng)}):
                for wr in (True, False):
                    ps = rng.choice([len(old), len(old), len(old) + 1])
                    opt = Scripted(BaseOptimizationConfig(population_size=ps, max_cycles=1))
                    opt._task = task
                    A = [make_agent(i, c) for i, c in enumerate(old)]
                    opt._population = list(A)
                    ok, r = call(opt._generate_group_population, ng, na, wr)
                    impl = [tags(g) for g in r] if ok else rerr(r)
                    C.add({"op": "sel.group", "pop": pop_json(old), "ps": ps, "nGroups": ng, "nAgents": na, "withResidual": wr}, impl,
                          {"old": repr(old), "ps": ps, "n": (ng, na, wr), "op": "_generate_group_population", "nt": True})
                    if ok and (tags(opt._population) != list(range(len(old))) or any(a is b for g in r for a in g for b in A)):
                        ctx.fail("C16/_generate_group_population/mutates-or-aliases-the-population", f"{old} groups={impl}", SUITE, {"old": old, "n": (ng, na, wr)})
        # _greedy_select_agent on every pair of single agents
        for co in old[:2]:
            for cn in new[:2]:
                opt = Scripted(BaseOptimizationConfig(population_size=1, max_cycles=1))
                a, b = make_agent(0, co), make_agent(1, cn)
                ok, r = call(opt._greedy_select_agent, a, b)
                C.add({"op": "sel.greedy1", "pop": pop_json([co, cn])}, tags([r])[0] if ok else rerr(r), {"old": co, "new": cn, "op": "_greedy_select_agent", "nt": True})
                if ok and ((r.cost, r.position) != ((b.cost, b.position) if cn < co else (a.cost, a.position))):
                    ctx.fail("C16/_greedy_select_agent/incumbent-not-kept-unless-strictly-cheaper", f"{co} vs {cn} -> {r.cost}", SUITE, {"old": co, "new": cn})
    # … and on costs that are not numbers: a NaN challenger is not strictly cheaper (the incumbent stays), a NaN incumbent is never beaten
    for co, cn in itertools.product([math.nan, -math.inf, -1.0, 0.0, 1e-17, math.inf], repeat=2):
        opt = Scripted(BaseOptimizationConfig(population_size=1, max_cycles=1))
        a, b = make_agent(0, co), make_agent(1, cn)
        ok, r = call(opt._greedy_select_agent, a, b)
        C.add({"op": "sel.greedy1", "pop": pop_json([co, cn])}, tags([r])[0] if ok else rerr(r), {"old": repr(co), "new": repr(cn), "op": "_greedy_select_agent", "nt": True})
        if ok and r.position != (b.position if cn < co else a.position):
            ctx.fail("C16/_greedy_select_agent/incumbent-not-kept-unless-strictly-cheaper", f"{co} vs {cn} -> agent {r.position}", SUITE, {"old": repr(co), "new": repr(cn)})
    flush(ctx, C)


def flush(ctx, C):
    for req, impl, model, meta in C.flush():
        ctx.case((meta["op"], meta.get("dir"), meta.get("costs"), meta.get("old"), meta.get("new"), meta.get("n"), meta.get("ps"), meta.get("nb"), meta.get("nw")),
                 nontrivial=bool(meta.get("nt", True)), kind=meta["op"])
        if model != impl:
            ctx.disagree(SUITE, meta, model, impl)
        if meta["op"] in ("best_agents", "_greedy_select_population", "special_agents"):
            ctx.sample({"case": meta, "implementation": impl, "model": model}, limit=6)


def replay(case):
    import json
    print(json.dumps(case, indent=1, default=str))
    print("re-run `./check C16` (the failing population is in the case above; every helper is re-evaluated on it by the exhaustive enumeration)")
    return 1
