"""The exported optimizers and their documented configurations (the fixture configs of /repo/tests/algorithms)."""
from __future__ import annotations
import copy
import glob
import importlib
import inspect
import json
import os
import sys
from pathlib import Path

import pyvolutionary as pv
from pyvolutionary.abstract import OptimizationAbstract

DATA = Path(__file__).resolve().parent / "data"
REPO = Path(os.environ.get("PV_REPO", "/repo"))

OPTS = {n: c for n, c in vars(pv).items() if inspect.isclass(c) and issubclass(c, OptimizationAbstract) and c is not OptimizationAbstract}


def _harvest():
    """call every `optimization_config` fixture function of tests/algorithms/test_*.py"""
    if str(REPO) not in sys.path:
        sys.path.insert(0, str(REPO))
    out = {}
    for f in sorted(glob.glob(str(REPO / "tests" / "algorithms" / "test_*.py"))):
        m = importlib.import_module("tests.algorithms." + os.path.basename(f)[:-3])
        fx = getattr(m, "optimization_config", None)
        if fx is None:
            continue
        fn = None
        for attr in ("__wrapped__", "_fixture_function"):
            fn = fn or getattr(fx, attr, None)
        if fn is None and hasattr(fx, "__pytest_wrapped__"):
            fn = fx.__pytest_wrapped__.obj
        if fn is None and hasattr(fx, "_get_wrapped_function"):
            fn = fx._get_wrapped_function()
        cfg = fn()
        oc = [c for n, c in vars(m).items() if n in OPTS]
        if len(oc) == 1:
            out[oc[0].__name__] = [type(cfg).__name__, json.loads(cfg.model_dump_json())]
    return out


def load_configs():
    committed = json.loads((DATA / "fixture_configs.json").read_text()) if (DATA / "fixture_configs.json").exists() else {}
    try:
        live = _harvest()
    except Exception:  # tests not importable: fall back to the committed copy
        live = {}
    cfgs = dict(committed)
    cfgs.update(live)
    return cfgs


CFGS = load_configs()


def names():
    return sorted(n for n in OPTS if n in CFGS)


def config_for(name, **over):
    cname, d = CFGS[name]
    d = copy.deepcopy(d)
    d.update(over)
    return getattr(pv, cname)(**d)


_PARAM_CACHE = {}
BASE_KEYS = ("population_size", "fitness_error", "max_cycles", "early_stopping")


def param_variants(name):
    """algorithm-specific parameter values around the documented ones that the configuration class's own validators accept:
    list of (key, value). Candidates: halves/doubles/±1 of the documented value, zero (an operator switched off) and a grid of common probabilities."""
    if name in _PARAM_CACHE:
        return _PARAM_CACHE[name]
    cname, d = CFGS[name]
    cls = getattr(pv, cname)
    out = []
    for k, v in d.items():
        if k in BASE_KEYS or isinstance(v, bool) or v is None:
            continue
        cands = []
        if isinstance(v, int):
            cands = [v - 1, v + 1, 2 * v, max(1, v // 2), 0, 1, 2, 3]
        elif isinstance(v, float):
            cands = [v / 2, v * 0.9, v * 1.5, v * 2, 0.0, 0.05, 0.1, 0.25, 0.35, 0.45, 0.5, 0.7, 0.9, 1.0, 1.5, 2.0]
        elif isinstance(v, list) and v and all(isinstance(x, (int, float)) and not isinstance(x, bool) for x in v):
            cands = [[x * 0.5 for x in v], [x * 2 for x in v], list(reversed(v))]
            if all(isinstance(x, int) for x in v):
                cands = [[max(1, x // 2) for x in v], [x * 2 for x in v], list(reversed(v))]
        for c in cands:
            if c == v:
                continue
            dd = copy.deepcopy(d)
            dd[k] = c
            try:
                cls(**dd)
                out.append((k, c))
            except Exception:  # rejected by the validators: not a valid configuration
                pass
    _PARAM_CACHE[name] = out
    return out


_EXTREME_CACHE = {}


def param_extremes(name):
    """for every integer algorithm parameter: the smallest and the largest value the configuration class's own validators accept (scanned from 0 up to the
    documented value, and over a few multiples of it): list of (key, value). Thresholds at their lowest accepted value are where rarely taken branches run."""
    if name in _EXTREME_CACHE:
        return _EXTREME_CACHE[name]
    cname, d = CFGS[name]
    cls = getattr(pv, cname)
    out = []

    def ok(k, c):
        dd = copy.deepcopy(d)
        dd[k] = c
        try:
            cls(**dd)
            return True
        except Exception:  # noqa
            return False
    for k, v in d.items():
        if k in BASE_KEYS or isinstance(v, bool) or not isinstance(v, int):
            continue
        lo = next((c for c in range(0, v) if ok(k, c)), None)
        hi = next((c for c in (100 * v, 10 * v, 5 * v, 3 * v, 2 * v) if c > v and ok(k, c)), None)
        if lo is not None:
            out.append((k, lo))
        if hi is not None and hi <= 1000:
            out.append((k, hi))
    _EXTREME_CACHE[name] = out
    return out


def make(name, **over):
    return OPTS[name](config_for(name, **over))


if __name__ == "__main__":
    live = _harvest()
    (DATA / "fixture_configs.json").write_text(json.dumps(live, indent=1, sort_keys=True))
    print(len(live), "configs harvested;", sorted(set(OPTS) - set(live)), "without fixture")
